"""C12 workload generator: programs + bin2tap option sets + simulated-LOAD configurations, and the memory image the
documentation of bin2tap.py promises for each of them.

No skoolkit import. Everything here is derived from sphinx/source/commands.rst (bin2tap.py, tap2sna.py) and from what a
48K/128K Spectrum does with the BASIC loader bin2tap describes; nothing is read from skoolkit/bin2tap.py at run time.

Clean function API (reusable, e.g. by C13):

  spec = gen_spec(rng, kind=None, max_len=MAX_LEN)     one program + option set ('48stack' | '48clear' | '128')
  files = write_inputs(spec, stem)                      writes <stem>.bin (and <stem>.scr); returns dict of names
  argv = bin2tap_argv(spec, files, tapefile)            argv for skoolkit.bin2tap.main
  cfg  = gen_config(rng, spec, slow_python_ok)          one simulated-LOAD configuration (C13's matrix + machine + --start)
  argv = tap2sna_argv(spec, cfg, tapefile, snafile)     argv for skoolkit.tap2sna.main
  exp  = expected(spec, machine)                        what the snapshot must hold (segments, excluded ranges, PC, SP, 0x7FFD)
  to_replay(spec) / from_replay(d)                      JSON-able form

Addresses: ORG = address of the first byte of the file; BEGIN/END = converted range; START = address jumped to;
STACK = stack pointer (no CLEAR); CLEAR = argument of CLEAR in the BASIC loader.
"""
import base64

MAX_LEN = 41984            # "1 byte..41K"
SCR_LEN = 6912

def gen_scr(rng, may_be_short=False):
    """A loading screen file of 6912 bytes. Without --clear the screen travels inside the machine-code loader block, which
    bin2tap pads with zeros up to 6912 bytes, so a shorter file (pixels only, or cut anywhere) is accepted there; with --clear
    the documentation's "6912-byte SCR file" is taken literally."""
    n = SCR_LEN if not may_be_short or rng.random() < 0.6 else rng.choice([6144, 6911, 6900, 6400, 2048, 1])
    return gen_bytes(rng, n, rng.choice(('random', 'tagged', 'runs')))[0]
RAM = 16384
TOP = 65536
LOADER48 = (23296, 23316)  # where the BASIC loader of a tape made without --clear puts its 20-byte machine-code loader ("23296" in line 10)
PAGING128 = (23296, 23552) # on a 128K the ROM keeps its paging subroutines and extra system variables here
MIN_STACK = 16398          # "STACK must be at least 16384+14=16398"
STACK_BYTES = 14           # "Stack operations will overwrite the bytes in the address range STACK-14 to STACK-1 inclusive"
# Lowest usable CLEAR addresses from the documentation
CLEAR_MIN = {(48, False): 23952, (48, True): 23972, (128, False): 23957, (128, True): 23977}
ALL_BANKS = (0, 1, 3, 4, 6, 7)
# System variables the ROM's 50 Hz interrupt routine (0x0038) writes: FRAMES always, KSTATE when its bytes look like a key being
# held. They can only be "data" on a tape made without --clear (the only mode in which data may lie below the BASIC area).
INT_SYSVARS = ((23552, 23560, 'KSTATE'), (23672, 23675, 'FRAMES'))
# The stack pointer chosen with -p must keep its 14 bytes away from the machine-code loader at 23296 (PUSH BC would overwrite
# the JP that has not been executed yet) and away from the system variables the interrupt routine writes; the documentation
# is silent about both, so the generator stays out of this zone rather than guess.
STACK_FORBIDDEN = (23297, 23800)
FREE_LO = 24400            # comfortably above the BASIC program, its variables, the workspace used by LOAD and the calculator stack
FREE_GAP = 320             # distance kept below CLEAR when data is placed *under* the BASIC stack

ACCELERATORS = ('auto', 'auto', 'auto', 'none', 'rom', 'list', 'speedlock,rom', 'alkatraz', 'bleepload,microsphere')

# ------------------------------------------------------------------ content

def gen_bytes(rng, n, style=None):
    style = style or rng.choice(('random', 'random', 'random', 'tagged', 'ff', 'zero', 'text', 'runs', 'stacky'))
    if style == 'random':
        return rng.randbytes(n), style
    if style == 'tagged':          # value depends on the offset: a shifted or truncated copy cannot compare equal
        k = rng.randrange(1, 256) | 1
        return bytes(((i * k) ^ (i >> 8) ^ 0x5A) & 0xFF for i in range(n)), style
    if style == 'ff':              # all one-bits: the longest possible tape for the length
        return b'\xff' * n, style
    if style == 'zero':
        return bytes(n), style
    if style == 'text':
        return bytes(rng.choice(b'ABCDEFGHIJKLMNOPQRSTUVWXYZ abcdefghij0123456789\r') for _ in range(n)), style
    if style == 'runs':
        out = bytearray()
        while len(out) < n:
            out += bytes((rng.randrange(256),)) * rng.choice((1, 2, 5, 40, 300))
        return bytes(out[:n]), style
    # 'stacky': bytes that look like return addresses / the values bin2tap pre-fills (0x3F 0x05), so that a wrong pre-fill
    # cannot hide behind data that happens to be harmless
    pat = bytes((0x3F, 0x05, 0x00, 0x00, 0x56, 0x05, 0xFF, 0xFF))
    return (pat * (n // len(pat) + 1))[:n], style

def _pick_len(rng, max_len):
    r = rng.random()
    if r < 0.30:
        n = rng.choice((1, 2, 3, 4, 5, 6, 13, 14, 15, 16, 17, 18, 19, 20, 21, 45))
    elif r < 0.72:
        n = rng.randrange(22, 1200)
    elif r < 0.90:
        n = rng.randrange(1200, 9000)
    elif r < 0.97:
        n = rng.randrange(9000, 30001)
    else:
        n = rng.choice((32768, 40000, 41983, 41984, rng.randrange(30001, 41985)))
    return max(1, min(n, max_len))

def _stack_ok(stack):
    return MIN_STACK <= stack <= 65535 and not STACK_FORBIDDEN[0] <= stack <= STACK_FORBIDDEN[1]

# ------------------------------------------------------------------ specs

def gen_spec(rng, kind=None, max_len=MAX_LEN):
    """One program and one bin2tap option set inside the documented domain. The returned dict holds the *requested* option
    values (None = option not given) and the *effective* values bin2tap's documentation derives from them (eff_*)."""
    kind = kind or rng.choice(('48stack', '48stack', '48stack', '48clear', '48clear', '128', '128'))
    for attempt in range(200):
        spec = {'48stack': _gen_48stack, '48clear': _gen_48clear, '128': _gen_128}[kind](rng, max_len)
        if spec is not None:
            spec['kind'] = kind
            spec['fmt'] = rng.choice(('tap', 'pzx'))
            return spec
    raise RuntimeError('c12_tapes: no spec of kind %s after 200 attempts' % kind)

def _sub_range(rng, org, n):
    """(begin, end) requested values (None = not given) and effective values."""
    begin = end = None
    if n > 1 and rng.random() < 0.3:
        r = rng.random()
        if r < 0.4:
            begin = org + rng.randrange(1, n)
        elif r < 0.7:
            end = org + rng.randrange(1, n)
        else:
            begin = org + rng.randrange(0, n - 1)
            end = rng.randrange(begin + 1, org + n + 1)
    elif rng.random() < 0.05:
        begin, end = org, org + n                      # given explicitly with their default values
    eb = org if begin is None else begin
    ee = org + n if end is None else end
    return begin, end, eb, ee

def _pick_start(rng, eb, ee, extra=()):
    """Requested START (None = default BEGIN)."""
    r = rng.random()
    if r < 0.3:
        return None
    if r < 0.8:
        return rng.randrange(eb, ee)
    if r < 0.9:
        return rng.choice((eb, ee - 1))
    cands = [a for a in extra if RAM <= a < TOP]
    cands.append(rng.randrange(RAM, TOP))
    return rng.choice(cands)

def _gen_48stack(rng, max_len):
    n = _pick_len(rng, max_len)
    data, style = gen_bytes(rng, n)
    r = rng.random()
    org = None
    if r < 0.25:
        eorg = TOP - n                                 # the documented default
    else:
        hi = TOP - n
        r2 = rng.random()
        if r2 < 0.55:
            eorg = rng.randrange(RAM, hi + 1)
        elif r2 < 0.7:
            eorg = min(hi, rng.choice((RAM, 16385, 16398, 22528, 23296, 23300, 23316, 23552, 23755, 32768, 49152, 65535)))
        elif r2 < 0.85:
            eorg = min(hi, max(RAM, 23296 - rng.randrange(0, n + 1)))     # data lying over the machine-code loader
        else:
            eorg = hi
        org = eorg
    begin, end, eb, ee = _sub_range(rng, eorg, n)
    start = _pick_start(rng, eb, ee, (eb - 1, ee, 16384, 65535))
    estart = eb if start is None else start
    if LOADER48[0] <= estart < LOADER48[1]:
        return None                                    # PC passes here while the loader itself runs: "PC at START" is not an event
    # --- stack pointer
    stack = None
    r = rng.random()
    if r < 0.25 and _stack_ok(eb):
        estack = eb                                    # default
    else:
        r2 = rng.random()
        if r2 < 0.22:
            stack = ee + rng.randrange(0, 6)           # last four stack bytes overlap the end of the data
        elif r2 < 0.34:
            stack = eb + rng.randrange(4, 9)           # ... overlap the first bytes of the data
        elif r2 < 0.46:
            stack = eb + rng.randrange(1, 4)           # stack bytes start below the data
        elif r2 < 0.60:
            stack = rng.randrange(eb, ee + 1)          # anywhere inside the data
        elif r2 < 0.70:
            stack = ee + rng.randrange(6, 20)          # data inside the 14 bytes but not the last four
        elif r2 < 0.80:
            stack = rng.choice((MIN_STACK, 65535, 23296, 32768, 49152, 16384 + 6912))
        elif r2 < 0.85:
            stack = eb                                 # explicit default
        else:
            stack = rng.randrange(MIN_STACK, TOP)
        if not _stack_ok(stack):
            return None
        estack = stack
    scr = None
    if rng.random() < 0.3:
        scr = gen_scr(rng, may_be_short=True)
    return {'machine': 48, 'bin': data, 'style': style, 'org': org, 'begin': begin, 'end': end, 'start': start, 'stack': stack,
            'clear': None, 'scr': scr, 'banks': None, 'o7ffd': None, 'loader': None,
            'eff_org': eorg, 'eff_begin': eb, 'eff_end': ee, 'eff_start': estart, 'eff_stack': estack}

def _pick_clear(rng, lo, hi):
    r = rng.random()
    if r < 0.2:
        return lo
    if r < 0.3:
        return min(hi, lo + rng.randrange(1, 4))
    if r < 0.45:
        return min(hi, max(lo, rng.choice((24575, 24999, 32767, 49151, 65367, hi))))
    return rng.randrange(lo, hi + 1)

def _gen_48clear(rng, max_len):
    has_scr = rng.random() < 0.35
    on128 = rng.random() < 0.12                        # candidate for loading on a simulated 128K as well
    lo = CLEAR_MIN[(128 if on128 else 48, has_scr)]
    under = rng.random() < 0.08                        # data placed in the free memory *below* the BASIC stack
    if under:
        clear = rng.randrange(FREE_LO + FREE_GAP + 64, 65368)
        room = clear - FREE_GAP - FREE_LO
        n = _pick_len(rng, min(max_len, room))
        eorg = rng.randrange(FREE_LO, clear - FREE_GAP - n + 1)
        org = eorg
    else:
        n = _pick_len(rng, max_len)
        hi = TOP - n - 1                               # CLEAR + 1 + n <= 65536
        if hi < lo:
            return None
        clear = _pick_clear(rng, lo, hi)
        org = None
        if rng.random() < 0.25:
            eorg = TOP - n
        else:
            eorg = org = rng.choice((clear + 1, clear + 1, TOP - n, rng.randrange(clear + 1, TOP - n + 1)))
    data, style = gen_bytes(rng, n)
    begin, end, eb, ee = _sub_range(rng, eorg, n)
    start = _pick_start(rng, eb, ee, (eb - 1, ee, 65535, clear + 1))
    estart = eb if start is None else start
    if on128 and PAGING128[0] <= estart < PAGING128[1]:
        return None                                    # the 128K ROM's own paging routines execute there
    ret_probe = False
    if eb <= estart < ee and rng.random() < 0.4:
        # "If the input file contains a program that returns to BASIC, you should use the --clear option": make the byte at START
        # a RET, so that the case can also be run to the point where BASIC reports the outcome of line 10
        i = estart - eorg
        data = data[:i] + b'\xc9' + data[i + 1:]
        ret_probe = True
    stack = None
    if rng.random() < 0.1:
        stack = rng.randrange(MIN_STACK, TOP)          # documented as irrelevant with --clear ("leave the stack pointer alone")
    scr = gen_scr(rng) if has_scr else None
    return {'machine': 48, 'bin': data, 'style': style, 'org': org, 'begin': begin, 'end': end, 'start': start, 'stack': stack,
            'clear': clear, 'scr': scr, 'banks': None, 'o7ffd': None, 'loader': None, 'ok128': on128, 'under': under, 'ret_probe': ret_probe,
            'eff_org': eorg, 'eff_begin': eb, 'eff_end': ee, 'eff_start': estart, 'eff_stack': None}

def loader_len(nbanks):
    return 39 + nbanks                                 # "39-45 bytes long, depending on the number of RAM banks to load"

def _gen_128(rng, max_len):
    has_scr = rng.random() < 0.3
    lo = CLEAR_MIN[(128, has_scr)]
    r = rng.random()
    if r < 0.3:
        banks = None                                   # default: all six
        ebanks = ALL_BANKS
    elif r < 0.4:
        banks = ()                                     # '--banks ,'
        ebanks = ()
    else:
        ebanks = tuple(sorted(rng.sample(ALL_BANKS, rng.randrange(1, 7))))
        banks = tuple(rng.sample(ebanks, len(ebanks))) # any order on the command line
    L = loader_len(len(ebanks))
    under = rng.random() < 0.06
    if under:
        clear = rng.randrange(FREE_LO + FREE_GAP + 200, 49152)
        eb = rng.randrange(FREE_LO, clear - FREE_GAP - 50)
        ee = rng.randrange(eb + 1, clear - FREE_GAP + 1)
    else:
        clear = _pick_clear(rng, lo, 49150)
        r = rng.random()
        if r < 0.35:
            eb = clear + 1
        elif r < 0.45:
            eb = 49151
        else:
            eb = rng.randrange(clear + 1, 49152)
        if rng.random() < 0.5:
            ee = 49152
        else:
            r = rng.random()
            if r < 0.5:
                ee = rng.randrange(eb + 1, min(49152, eb + 2000) + 1)
            else:
                ee = rng.randrange(eb + 1, 49153)
    begin = eb
    end = None if (ee == 49152 and rng.random() < 0.8) else ee
    # --- bank loader address
    loader = None
    eloader = clear + 1
    r = rng.random()
    if r < 0.5 and eloader + L <= 49152:
        pass                                           # default: CLEAR + 1 (may overwrite the first bytes of the main block)
    else:
        cands = []
        if clear + 1 + L <= 49152:
            cands += [rng.randrange(clear + 1, 49152 - L + 1), 49152 - L, clear + 1]
            if eb + L <= 49152 and not under:
                cands.append(eb + rng.randrange(0, max(1, min(ee - eb, 49152 - L - eb + 1))))   # inside the main block
        cands.append(rng.randrange(16384, 22528 - L))  # in the display file
        if clear - FREE_GAP - L > FREE_LO and not under:
            cands.append(rng.randrange(FREE_LO, clear - FREE_GAP - L))
        loader = eloader = rng.choice(cands)
    o7ffd = rng.choice((0, 16, 7, 0x17, 0x10 | rng.randrange(8), rng.randrange(64), rng.randrange(64), 0x20 | rng.randrange(32), 63))
    if o7ffd & 0x30 == 0x20:
        # Paging locked with ROM 0 (the 128K editor ROM) selected while the bank loader has just done EI: ROM 0's interrupt
        # routine needs to page ROM 1 in, cannot, and recurses until the stack has eaten the memory - on real hardware too.
        # Whether an interrupt falls between EI and START depends on the tape length (seen for 2 of 1200 lengths), so such a
        # value makes the outcome a race that no loader could win; the ROM-1 variant of the same value is used instead.
        o7ffd |= 0x10
    # --- start address
    r = rng.random()
    if r < 0.15:
        start = None
    elif r < 0.6:
        start = rng.randrange(eb, ee)
    elif r < 0.8:
        start = rng.randrange(49152, TOP)              # in the bank paged in by the final 0x7FFD value
    else:
        start = rng.choice((eb, ee - 1, 49152, 65535, rng.randrange(RAM, TOP)))
    estart = eb if start is None else start
    if eloader <= estart < eloader + L or PAGING128[0] <= estart < PAGING128[1]:
        return None                                    # PC passes here while the bank loader / the 128K paging routines run
    scr = gen_scr(rng) if has_scr else None
    style = rng.choice(('random', 'random', 'tagged', 'runs'))
    data = gen_bytes(rng, 0x20000, style)[0]
    return {'machine': 128, 'bin': data, 'style': style, 'org': None, 'begin': begin, 'end': end, 'start': start, 'stack': None,
            'clear': clear, 'scr': scr, 'banks': banks, 'o7ffd': o7ffd, 'loader': loader, 'under': under,
            'eff_org': RAM, 'eff_begin': eb, 'eff_end': ee, 'eff_start': estart, 'eff_stack': None,
            'eff_banks': ebanks, 'eff_loader': eloader}

# ------------------------------------------------------------------ files and argv

def write_inputs(spec, stem):
    files = {'bin': stem + '.bin', 'scr': None}
    with open(files['bin'], 'wb') as f:
        f.write(spec['bin'])
    if spec['scr'] is not None:
        files['scr'] = stem + '.scr'
        with open(files['scr'], 'wb') as f:
            f.write(spec['scr'])
    return files

def bin2tap_argv(spec, files, tapefile, rng=None):
    argv = []
    def add(short, long_, value):
        if value is not None:
            argv.extend((long_ if (rng and rng.random() < 0.3) else short, str(value)))
    add('-o', '--org', spec['org'])
    add('-b', '--begin', spec['begin'])
    add('-e', '--end', spec['end'])
    add('-s', '--start', spec['start'])
    add('-p', '--stack', spec['stack'])
    add('-c', '--clear', spec['clear'])
    add('-S', '--screen', files['scr'])
    if spec['machine'] == 128:
        argv.extend(('--7ffd', str(spec['o7ffd'])))
        if spec['banks'] is not None:
            argv.extend(('--banks', ','.join(str(b) for b in spec['banks']) or ','))
        add('--loader', '--loader', spec['loader'])
    argv.extend((files['bin'], tapefile))
    return argv

def tape_stats(spec):
    """(number of blocks, total bytes) of the tape the documentation describes for this spec."""
    n = spec['eff_end'] - spec['eff_begin']
    has_scr = spec['scr'] is not None
    if spec['clear'] is None:
        return 5, 19 + 22 + 19 + (SCR_LEN if has_scr else 0) + 22 + n + 2
    blocks, total = 2, 19 + 60
    if has_scr:
        blocks, total = blocks + 2, total + 19 + SCR_LEN + 2
    blocks, total = blocks + 2, total + 19 + n + 2
    if spec['machine'] == 128:
        nb = len(spec['eff_banks'])
        blocks, total = blocks + 2 + nb, total + 19 + loader_len(nb) + 2 + nb * 16386
    return blocks, total

def sim_timeout(spec):
    """Simulated seconds that are certainly enough for the tape: per block at most 6.2 s (header pilot 8063 x 2168 T, sync,
    19 bytes, 1 s pause), per byte at most 8 x 3420 T = 7.82 ms; fast loading advances the clock along the tape too.
    A logical budget scaled with the tape, not a wall-clock limit."""
    blocks, total = tape_stats(spec)
    return int(20 + 7 * blocks + 0.0085 * total) + (5 if spec['machine'] == 128 else 0)

# ------------------------------------------------------------------ simulated-LOAD configurations

def gen_config(rng, spec, slow_python_ok=False, python_ok=True):
    """One point of C13's configuration matrix (accelerator, accelerate-dec-a, pause, python, fast-load, cmio) plus the
    machine, the snapshot format and whether tap2sna is told the start address.
    slow_python_ok: the caller can afford a Python-simulator run without fast loading for this tape."""
    blocks, total = tape_stats(spec)
    python = 0
    # loading without the ROM shortcut costs simulated time proportional to the tape: fewer of the long tapes
    p_slow = 0.55 if total <= 20000 else 0.35 if total <= 60000 else 0.2
    fast = 0 if rng.random() < p_slow else 1
    r = rng.random()
    if python_ok and slow_python_ok and r < 0.5:
        python, fast = 1, (0 if rng.random() < 0.8 else 1)
    elif python_ok and r < 0.10:
        python, fast = 1, 1
    cmio = 1 if rng.random() < 0.15 else 0
    machine = spec['machine']
    if spec['kind'] == '48clear' and spec.get('ok128') and rng.random() < 0.7:
        machine = 128
    cfg = {
        'python': python, 'fast_load': fast, 'cmio': cmio,
        'accelerator': rng.choice(ACCELERATORS),
        'dec_a': rng.choice((3, 3, 0, 1, 2)),
        'pause': rng.choice((1, 1, 0)),
        'machine': machine,
        'out': rng.choice(('z80', 'szx')),
        'finish_tape': 0,
    }
    # tap2sna stops "when the program counter hits the start address given by --start"; without it a simulated LOAD ends at the
    # end of the tape when a custom loader was detected (which includes the ROM loader run without fast loading), or when PC is
    # in RAM (which on a 128K is true inside the paging routines and inside the bank loader). So --start is what a user has to
    # pass in every case but 48K + fast loading, where both ways must give the same answer.
    need_start = (not fast) or machine == 128
    cfg['use_start'] = bool(need_start or rng.random() < 0.5)
    if cfg['use_start'] and rng.random() < 0.2:
        cfg['finish_tape'] = 1
    return cfg

MAIN_4 = 0x1303            # ROM: where BASIC arrives to print a report; ERR_NR (23610) then holds the report code minus one

def tap2sna_argv(spec, cfg, tapefile, snafile, stop_at=None):
    """stop_at: run to this address instead of START (used with MAIN_4 for programs that return to BASIC)."""
    argv = []
    def c(name, value, default):
        if value != default:
            argv.extend(('-c', '%s=%s' % (name, value)))
    c('machine', cfg['machine'], 48)
    c('python', cfg['python'], 0)
    c('fast-load', cfg['fast_load'], 1)
    c('cmio', cfg['cmio'], 0)
    c('accelerator', cfg['accelerator'], 'auto')
    c('accelerate-dec-a', cfg['dec_a'], 3)
    c('pause', cfg['pause'], 1)
    c('finish-tape', cfg['finish_tape'], 0)
    argv.extend(('-c', 'timeout=%d' % sim_timeout(spec)))
    if stop_at is not None:
        argv.extend(('--start', str(stop_at)))
    elif cfg['use_start']:
        argv.extend(('--start', str(spec['eff_start'])))
    argv.extend((tapefile, snafile))
    return argv

# ------------------------------------------------------------------ expectation

def expected(spec, machine=None, stack_bytes=STACK_BYTES):
    """What the documentation promises about the snapshot.
    segments: list of (bank or None, address, bytes) - for bank None the address is a CPU address, otherwise an offset in the bank.
    excluded: list of (lo, hi, reason) CPU address ranges [lo, hi) the loading process itself is documented to occupy.
    """
    eb, ee = spec['eff_begin'], spec['eff_end']
    off = eb - spec['eff_org']
    exp = {'pc': spec['eff_start'], 'sp': None, 'clear': spec['clear'], 'o7ffd': None, 'excluded': [], 'banks': []}
    if spec['machine'] == 128:
        data = spec['bin']
        low = data[5 * 0x4000:6 * 0x4000] + data[2 * 0x4000:3 * 0x4000]      # 16384..49151 = banks 5 and 2
        exp['main'] = (eb, low[eb - RAM:ee - RAM])
        exp['banks'] = [(b, data[b * 0x4000:(b + 1) * 0x4000]) for b in spec['eff_banks']]
        exp['o7ffd'] = spec['o7ffd']
        lo = spec['eff_loader']
        exp['excluded'].append((lo, lo + loader_len(len(spec['eff_banks'])), '128K bank loader'))
    else:
        exp['main'] = (eb, spec['bin'][off:off + ee - eb])
    if spec['clear'] is None:
        st = spec['eff_stack']
        exp['sp'] = st
        exp['excluded'].append((st - stack_bytes, st, '%d stack bytes below STACK' % stack_bytes))
        for lo, hi, name in INT_SYSVARS:
            exp['excluded'].append((lo, hi, 'system variable %s (written by the ROM interrupt routine)' % name))
    return exp

def prefill_overlap(spec):
    """How the last four stack bytes [STACK-4, STACK) of a tape made without --clear lie relative to the data:
    'none' | 'inside' | 'tail' (cut by the end of the data) | 'head' (start below the data)."""
    if spec['clear'] is not None:
        return 'none'
    st, eb, ee = spec['eff_stack'], spec['eff_begin'], spec['eff_end']
    lo, hi = st - 4, st
    if hi <= eb or lo >= ee:
        return 'none'
    if lo < eb:
        return 'head'
    if hi > ee:
        return 'tail'
    return 'inside'

# ------------------------------------------------------------------ replay form

_BYTES = ('bin', 'scr')

def to_replay(spec):
    d = {}
    for k, v in spec.items():
        if k in _BYTES:
            d[k] = None if v is None else base64.b64encode(v).decode()
        elif isinstance(v, tuple):
            d[k] = list(v)
        else:
            d[k] = v
    return d

def from_replay(d):
    spec = dict(d)
    for k in _BYTES:
        if spec.get(k) is not None:
            spec[k] = base64.b64decode(spec[k])
    for k in ('banks', 'eff_banks'):
        if spec.get(k) is not None:
            spec[k] = tuple(spec[k])
    return spec

def describe(spec):
    keys = ('kind', 'fmt', 'style', 'org', 'begin', 'end', 'start', 'stack', 'clear', 'banks', 'o7ffd', 'loader')
    d = {k: spec.get(k) for k in keys if spec.get(k) is not None}
    d['len'] = len(spec['bin'])
    d['scr'] = spec['scr'] is not None
    return d
