"""C13 tape construction.

Two kinds of tape:

* plain bin2tap tapes: the real bin2tap.main turns a random binary into BASIC loader + code-loader + headerless block
  (all loaded by the ROM's LD-BYTES, so fast-loadable), optionally re-wrapped as TZX standard-speed blocks;
* custom-loader tapes: a bin2tap-made (fast-loadable) prefix whose binary is a small stub plus a synthesised tape
  loader built around one of the tape-sampling loops that tap2sna.py recognises, followed by one or two turbo
  blocks (TZX 0x11, or 0x12 + 0x13 + 0x14) whose pulse lengths are the ROM's scaled by loop_time/59.

The loop shapes are a frozen copy (taken at the pinned commit) of the signatures in skoolkit/loadsample.py: the
loaders are therefore fixed programs that do not change when the table under test is edited.

Two loader skeletons exist:
  'edge'  - a register-parametrised transcription of the ROM's LD-BYTES (leader / sync / flag / data / parity) whose
            LD-EDGE-1 sampling loop is the signature; covers every loop that keeps the last EAR level in a register;
  'cycle' - for the polarity-sensitive pairs (X-0 waits while the EAR bit is low, X-1 waits while it is high): one
            full low+high cycle is timed per bit.
"""
import os

# name, signature ('..' = wildcard), offset of the IN instruction, counter register, counter incremented?,
# T-states per iteration, register holding the last EAR level (None = polarity-sensitive loop), EAR mask, polarity
SHAPES = [
    ('activision', '24 C8 ED 78 A8 E6 40 CA', 2, 'H', 1, 42, 'B', 0x40, 0),
    ('alkatraz', '04 20 03 .. .. .. DB FE 1F C8 A9 E6 20 28 F1', 6, 'B', 1, 59, 'C', 0x20, 0),
    ('alkatraz-05', '04 20 05 .. .. .. .. .. DB FE 1F C8 A9 E6 20 28 EF', 8, 'B', 1, 59, 'C', 0x20, 0),
    ('alkatraz-09', '04 20 09 .. .. .. .. .. .. .. .. .. DB FE 1F C8 A9 E6 20 28 EB', 12, 'B', 1, 59, 'C', 0x20, 0),
    ('alkatraz-0a', '04 20 0A .. .. .. .. .. .. .. .. .. .. DB FE 1F C8 A9 E6 20 28 EA', 13, 'B', 1, 59, 'C', 0x20, 0),
    ('alkatraz-0b', '04 20 0B .. .. .. .. .. .. .. .. .. .. .. DB FE 1F C8 A9 E6 20 28 E9', 14, 'B', 1, 59, 'C', 0x20, 0),
    ('alkatraz2', '04 20 01 C9 DB FE 1F C8 A9 E6 20 28 F3', 4, 'B', 1, 59, 'C', 0x20, 0),
    ('alternative', '04 C8 3E 7F DB FE CB 1F 00 A9 E6 20 28 F2', 4, 'B', 1, 62, 'C', 0x20, 0),
    ('alternative2', '04 C8 3E 7F DB FE CB 1F D0 A9 E6 20 28 F2', 4, 'B', 1, 63, 'C', 0x20, 0),
    ('alternative3', '04 C8 3E 7F DB FE CB 1F A9 E6 20 28 F3', 4, 'B', 1, 58, 'C', 0x20, 0),
    ('antirom', '04 C8 3E 7F DB FE 1F D0 A9 E6 20 20 F3', 4, 'B', 1, 59, 'C', 0x20, 1),
    ('audiogenic-0', '0C 28 16 DB FE A0 CA', 3, 'C', 1, 36, None, 0x00, 1),
    ('audiogenic-1', '0C 28 0D DB FE A0 C2', 3, 'C', 1, 36, None, 0x00, 0),
    ('bleepload', '04 C8 3E 7F DB FE 1F 00 A9 E6 20 28 F3', 4, 'B', 1, 58, 'C', 0x20, 0),
    ('boguslaw-juza', '04 C8 3E 7F DB FE 1F D6 00 A9 E6 20 28 F2', 4, 'B', 1, 61, 'C', 0x20, 0),
    ('bulldog', '04 C8 3A 7F 00 DB FE 1F A9 E6 20 28 F3', 5, 'B', 1, 60, 'C', 0x20, 0),
    ('codemasters', '04 C8 3E FE DB FE FD 6F A9 E6 40 28 F3', 4, 'B', 1, 58, 'C', 0x40, 0),
    ('crl', '04 C8 3E 7F DB FE B7 D8 A9 E6 40 28 F3', 4, 'B', 1, 59, 'C', 0x40, 0),
    ('crl2', '04 C8 C8 3E 7F DB FE 1F A9 E6 20 28 F3', 5, 'B', 1, 59, 'C', 0x20, 0),
    ('crl3', '04 28 1D 3E 7F DB FE 1F 30 1B A9 E6 20 28 F1', 5, 'B', 1, 63, 'C', 0x20, 0),
    ('crl4', '04 C8 3E 7F DB FE 1F A9 E6 20 E6 20 28 F2', 4, 'B', 1, 61, 'C', 0x20, 0),
    ('cybexlab', '04 C8 AF DB FE 1F D0 A9 E6 20 28 F4', 3, 'B', 1, 56, 'C', 0x20, 0),
    ('d-and-h', '04 C8 3E 7F DB FE ED 4F A9 E6 40 28 F3', 4, 'B', 1, 59, 'C', 0x40, 0),
    ('delphine', '04 C8 3E 7F DB FE A7 D8 A9 E6 40 28 F3', 4, 'B', 1, 59, 'C', 0x40, 0),
    ('design-design', '04 CA .. .. 3E 7F DB FE 1F A9 E6 20 28 F2', 6, 'B', 1, 59, 'C', 0x20, 0),
    ('digital-integration', '05 C8 DB FE A9 E6 40 CA', 2, 'B', 0, 41, 'C', 0x40, 0),
    ('diver', 'DB FE 14 C8 E6 40 A9 28 F7', 0, 'D', 1, 43, 'C', 0x40, 0),
    ('ernieware', '04 C8 3E 7F DB FE 1F D2 .. .. A9 E6 20 28 F1', 4, 'B', 1, 64, 'C', 0x20, 0),
    ('gargoyle2', '04 C8 3E 7F DB FE 1F A9 D8 E6 20 28 F3', 4, 'B', 1, 59, 'C', 0x20, 0),
    ('gremlin', '04 C8 3E 7F DB FE A9 E6 40 28 F5', 4, 'B', 1, 50, 'C', 0x40, 0),
    ('gremlin2-0', '2C DB FE A4 CA', 1, 'L', 1, 29, None, 0x00, 1),
    ('gremlin2-1', '2C DB FE A4 C2', 1, 'L', 1, 29, None, 0x00, 0),
    ('kwc-0', '04 C8 DB FE 87 F2', 2, 'B', 1, 34, None, 0x00, 1),
    ('kwc-1', '04 C8 DB FE 87 FA', 2, 'B', 1, 34, None, 0x00, 0),
    ('microprose', '04 C8 DB FE 1F C8 A9 E6 20 28 F5', 2, 'B', 1, 52, 'C', 0x20, 0),
    ('microsphere', '04 C8 3E 7F DB FE 1F A7 A9 E6 20 28 F3', 4, 'B', 1, 58, 'C', 0x20, 0),
    ('micro-style', '04 C8 3E 7F 3E 7F DB FE 1F 00 A9 E6 20 28 F1', 6, 'B', 1, 65, 'C', 0x20, 0),
    ('mirrorsoft', 'A7 04 C8 3E 7F DB FE 1F A9 E6 20 28 F3', 5, 'B', 1, 58, 'C', 0x20, 0),
    ('mirrorsoft2', '14 C8 3E 7F DB FE 1F 00 AB E6 20 28 F3', 4, 'D', 1, 58, 'E', 0x20, 0),
    ('operasoft', '1C C8 DB FE E6 40 BA CA', 2, 'E', 1, 41, 'D', 0x40, 0),
    ('palas', '04 C8 AF DB FE 1F B7 A9 E6 20 28 F4', 3, 'B', 1, 55, 'C', 0x20, 0),
    ('paul-owens', '04 C8 3E 7F DB FE 1F C8 A9 E6 20 28 F3', 4, 'B', 1, 59, 'C', 0x20, 0),
    ('raxoft', '04 C8 AF DB FE 1F 00 A9 E6 20 28 F4', 3, 'B', 1, 55, 'C', 0x20, 0),
    ('realtime', '04 C8 00 00 00 DB FE 1F A9 E6 20 28 F3', 5, 'B', 1, 59, 'C', 0x20, 0),
    ('rom', '04 C8 3E .. DB FE 1F D0 A9 E6 20 28 F3', 4, 'B', 1, 59, 'C', 0x20, 0),
    ('search-loader', '04 C8 3E .. DB FE A9 E6 40 D8 00 28 F3', 4, 'B', 1, 59, 'C', 0x40, 0),
    ('silverbird', '04 28 15 3A 00 00 7F DB FE A9 E6 40 28 F2', 7, 'B', 1, 62, 'C', 0x40, 0),
    ('software-projects', '3E 7F DB FE A9 E6 40 20 04 05 20 F4', 2, 'B', 0, 52, 'C', 0x40, 0),
    ('sparklers', '04 C8 AF DB FE 1F 00 00 A9 E6 20 28 F3', 3, 'B', 1, 59, 'C', 0x20, 0),
    ('speedlock', '04 C8 3E .. DB FE 1F A9 E6 20 28 F4', 4, 'B', 1, 54, 'C', 0x20, 0),
    ('tiny', '04 C8 DB FE A9 E6 40 28 F7', 2, 'B', 1, 43, 'C', 0x40, 0),
    ('us-gold', '04 C8 3E 7F DB FE 1F 00 A9 E6 20 20 F3', 4, 'B', 1, 58, 'C', 0x20, 1),
    ('weird-science', '04 C8 3E 7F DB FE 37 D0 A9 E6 40 28 F3', 4, 'B', 1, 59, 'C', 0x40, 0),
]

class Shape:
    def __init__(self, t):
        (self.name, sig, self.offset, self.ctr, self.inc, self.loop_time, self.ear, self.mask, self.pol) = t
        self.sig = [None if b == '..' else int(b, 16) for b in sig.split()]

SHAPE = {t[0]: Shape(t) for t in SHAPES}
CYCLE_PAIRS = {'audiogenic': ('audiogenic-0', 'audiogenic-1'), 'gremlin2': ('gremlin2-0', 'gremlin2-1'), 'kwc': ('kwc-0', 'kwc-1')}
EDGE_NAMES = [s.name for s in SHAPE.values() if s.ear is not None]
# Loaders: the unit the workload iterates over. name -> (skeleton, accelerator names it contains)
LOADERS = {n: ('edge', (n,)) for n in EDGE_NAMES}
LOADERS.update({k: ('cycle', v) for k, v in CYCLE_PAIRS.items()})
# Loops with wildcard bytes can be filled in two ways; 'nop' (every wildcard is a NOP) is what the feasibility probe
# did; 'ret' gives the alkatraz family a working counter-overflow exit (RET) in the skipped bytes.
WILDCARD_FILLS = ('ret', 'nop')

R8 = {'B': 0, 'C': 1, 'D': 2, 'E': 3, 'H': 4, 'L': 5, 'A': 7}
PAIRS = {'BC': 0, 'DE': 1, 'HL': 2}

# ------------------------------------------------------------------ tiny two-pass assembler

class Asm:
    def __init__(self, org):
        self.org = org
        self.items = []

    def db(self, *bs):
        for b in bs:
            self.items.append(('b', b & 0xFF))

    def label(self, name):
        self.items.append(('l', name))

    def jr(self, op, label):
        self.items.append(('jr', op, label))

    def jp(self, op, label):
        """3-byte instruction with an absolute address operand (JP, JP cc, CALL, LD rr,nn)."""
        self.items.append(('jp', op, label))

    def dw(self, label):
        self.items.append(('w', label))

    def pad_to(self, label, offset, fill=0x00):
        """Emit fill bytes until the position is label+offset (no-op when already there or beyond: caller checks)."""
        self.items.append(('pad', label, offset, fill))

    def assemble(self):
        for final in (False, True):
            labels = {}
            out = []
            pc = self.org
            for it in self.items:
                k = it[0]
                if k == 'b':
                    out.append(it[1])
                    pc += 1
                elif k == 'l':
                    if it[1] in labels:
                        raise ValueError('duplicate label ' + it[1])
                    labels[it[1]] = pc
                elif k == 'jr':
                    d = 0
                    if final:
                        d = self.labels[it[2]] - (pc + 2)
                        if not -128 <= d <= 127:
                            raise ValueError('JR out of range to ' + it[2])
                    out += [it[1], d & 0xFF]
                    pc += 2
                elif k == 'jp':
                    a = self.labels[it[2]] if final else 0
                    out += [it[1], a & 0xFF, a >> 8]
                    pc += 3
                elif k == 'w':
                    a = self.labels[it[1]] if final else 0
                    out += [a & 0xFF, a >> 8]
                    pc += 2
                elif k == 'pad':
                    target = labels[it[1]] + it[2]
                    if target < pc:
                        raise ValueError('pad target behind position')
                    out += [it[3]] * (target - pc)
                    pc = target
            self.labels = labels
        return bytes(out), labels

# ------------------------------------------------------------------ the sampling loop itself

def emit_loop(a, shape, label, fill, rng, timeout_label):
    """Emit the signature at `label`. Returns after the loop's own bytes (plus the address of a closing JP cc)."""
    a.label(label)
    sig = shape.sig
    n = len(sig)
    i = 0
    wild = [k for k in range(n) if sig[k] is None]
    wvals = {}
    if wild:
        first = wild[0]
        prev = sig[first - 1] if first else None
        if len(wild) == 1:
            wvals[first] = rng.choice([0x7F, 0x7F, 0xFE, 0x00, 0xBF]) if prev == 0x3E else 0x00
        elif len(wild) == 2 and first >= 1 and sig[first - 1] in (0xCA, 0xD2):
            wvals[first] = ('lo', timeout_label)
            wvals[first + 1] = ('hi', timeout_label)
        else:
            for k in wild:
                wvals[k] = 0x00
            if fill == 'ret':
                wvals[first] = 0xC9
    for k in range(n):
        b = sig[k]
        if b is None:
            v = wvals[k]
            if isinstance(v, tuple):
                if v[0] == 'lo':
                    a.dw(v[1])
                continue
            a.db(v)
        else:
            a.db(b)
    if sig[-1] in (0xCA, 0xC2, 0xF2, 0xFA) and sig[-2] not in (0x20, 0x28):
        a.dw(label)                           # the signature ends with the opcode of a JP cc back to the loop start

# forward jump targets out of the signature (offset from the loop start -> what must be there)
FORWARD = {
    'crl3': {32: 'ret', 37: 'ret'},          # JR Z,+1D at 1 (counter overflow); JR NC,+1B at 8 (BREAK)
    'silverbird': {24: 'ret'},               # JR Z,+15 at 1
    'software-projects': {13: 'edge'},       # JR NZ,+4 at 7 = edge found; falling out of the loop = counter exhausted
}

# ------------------------------------------------------------------ 'edge' skeleton (ROM LD-BYTES transcription)

def _alloc(shape):
    used = {shape.ctr, shape.ear}
    if shape.name == 'activision':
        used.add('C')                        # IN A,(C): C must stay 0xFE
    for pair in ('DE', 'HL', 'BC'):
        if not (set(pair) & used):
            lenp = pair
            break
    else:
        raise ValueError('no pair free')
    used |= set(lenp)
    free = [r for r in 'HLBCDE' if r not in used]
    par = free[0] if len(free) >= 2 else None
    byt = free[1] if len(free) >= 2 else free[0]
    return lenp, par, byt

def delay_code(a, kind, n, uid):
    """LD A,n + a DEC A loop of the given kind. Returns the T-states it takes."""
    a.db(0x3E, n)
    lab = 'dly%s' % uid
    a.label(lab)
    if kind == 'jr':
        a.db(0x3D)
        a.jr(0x20, lab)
        t = 16 * n - 5
    elif kind == 'jp':
        a.db(0x3D)
        a.jp(0xC2, lab)
        t = 14 * n
    else:                                    # a shape the DEC A accelerator must NOT recognise (counts as a miss)
        a.db(0x3D, 0x00)
        a.jr(0x20, lab)
        t = 20 * n - 5
    return 7 + t

def boundary_delay(a, spec, uid):
    """spec = (kind 'jr'|'jp', value 0..255, use_xor): a DEC A delay loop entered with a boundary value of A.
    A=0 on entry means 256 iterations (3584 T-states for the JP form, 4091 for the JR form)."""
    kind, value, use_xor = spec
    if value == 0 and use_xor:
        a.db(0xAF)                           # XOR A
    else:
        a.db(0x3E, value)                    # LD A,value
    lab = 'bd%s' % uid
    a.label(lab)
    a.db(0x3D)                               # DEC A
    if kind == 'jr':
        a.jr(0x20, lab)
    else:
        a.jp(0xC2, lab)

def delay_n(kind, tstates):
    per = {'jr': 16, 'jp': 14}.get(kind, 20)
    return max(1, min(255, round(tstates / per)))

def build_edge_loader(shape, org, fill, delay_kind, rng, init_ctr=True, wait_delay=None):
    """Returns (code bytes, labels). Entry LDB: A=flag byte, IX=destination, length pair=length, carry set."""
    lenp, par, byt = _alloc(shape)
    ctr, ear = R8[shape.ctr], R8[shape.ear]
    lh, ll = R8[lenp[0]], R8[lenp[1]]
    rp = PAIRS[lenp]
    cnt = R8[par if par else byt]            # leader pulse-pair counter
    p, b = (R8[par] if par else None), R8[byt]
    scale = shape.loop_time / 59.0
    # loops that mask the sample BEFORE combining it with the EAR register need that register to hold exactly 0 or the mask
    exact = shape.name in ('operasoft', 'diver')
    inc = shape.inc
    K = (lambda v: v) if inc else (lambda v: (256 - v) & 0xFF)
    a = Asm(org)

    def ld_r_n(r, n): a.db(0x06 + 8 * r, n)
    def ld_a_r(r): a.db(0x78 + r)
    def ld_r_a(r): a.db(0x47 + 8 * r)

    def cmp_gt(thr, label, op_nc_jr=True):
        """ROM idiom 'LD A,thr; CP B' (carry iff counter > thr), mirrored for decrementing counters."""
        if inc:
            a.db(0x3E, thr)
            a.db(0xB8 + ctr)
        else:
            ld_a_r(ctr)
            a.db(0xFE, (256 - thr) & 0xFF)

    a.label('LDB')
    if par:
        ld_r_n(p, 0)
        a.db(0x04 + 8 * p)                   # INC par -> NZ
    else:
        ld_r_n(b, 0)
        a.db(0x04 + 8 * b)
    a.db(0x08)                               # EX AF,AF'
    a.db(0xF3)                               # DI
    a.db(0x3E, 0x0F, 0xD3, 0xFE)             # border
    if shape.name == 'activision':
        a.db(0x0E, 0xFE)                     # LD C,$FE
    a.db(0xDB, 0xFE)                         # IN A,($FE)
    if shape.mask == 0x20:
        a.db(0x1F)                           # RRA
    a.db(0xE6, shape.mask)
    if shape.pol:
        a.db(0xEE, shape.mask)               # loop runs while sample != register
    if not exact:
        a.db(0xF6, 0x02)
    ld_r_a(ear)
    a.db(0xBF)                               # CP A
    a.label('BREAK')
    a.db(0xC0)                               # RET NZ
    a.label('START')
    if init_ctr:
        # the ROM leaves the counter as it is here; a loop that samples BEFORE it counts down (software-projects) would then
        # be entered with a counter of 0 (= 256 iterations) after every time-out
        ld_r_n(ctr, K(0x9C))
    a.jp(0xCD, 'EDGE1')
    a.jr(0x30, 'BREAK')
    # short wait (the ROM waits about a second here)
    ld_r_n(b, rng.choice([8, 20, 40]))
    a.label('WAIT')
    if cnt != b:
        a.db(0x05 + 8 * cnt)                 # DEC cnt
        a.jr(0x20, 'WAIT')
    else:
        a.db(0x00, 0x00, 0x00)
    a.db(0x05 + 8 * b)                       # DEC byt
    a.jr(0x20, 'WAIT')
    if wait_delay:
        # the pilot tone is playing here: how long this takes decides which edge is sampled next
        boundary_delay(a, wait_delay, 'w')
    a.jp(0xCD, 'EDGE2')
    a.jr(0x30, 'BREAK')
    ld_r_n(cnt, 0x100 - rng.choice([0x40, 0x80, 0x100]) & 0xFF)
    a.label('LEADER')
    ld_r_n(ctr, K(0x9C))
    a.jp(0xCD, 'EDGE2')
    a.jr(0x30, 'BREAK')
    if inc:
        a.db(0x3E, 0xC6, 0xB8 + ctr)         # LD A,$C6; CP ctr
    else:
        ld_a_r(ctr)
        a.db(0xFE, 0x100 - 0xC6)
    a.jr(0x30, 'START')
    a.db(0x04 + 8 * cnt)
    a.jr(0x20, 'LEADER')
    a.label('SYNC')
    ld_r_n(ctr, K(0xC9))
    a.jp(0xCD, 'EDGE1')
    a.jr(0x30, 'BREAK')
    if inc:
        ld_a_r(ctr)
        a.db(0xFE, 0xD4)
    else:
        a.db(0x3E, 0x100 - 0xD4, 0xB8 + ctr)
    a.jr(0x30, 'SYNC')
    a.jp(0xCD, 'EDGE1')
    a.db(0xD0)                               # RET NC
    if not exact:
        ld_a_r(ear)
        a.db(0xEE, 0x03)
        ld_r_a(ear)
    if par:
        ld_r_n(p, 0)
    ld_r_n(ctr, K(0xB0))
    a.jr(0x18, 'MARKER')
    a.label('LOOP')
    a.db(0x08)
    a.jr(0x20, 'FLAG')
    a.db(0xDD, 0x70 + b, 0x00)               # LD (IX+0),byt
    a.jr(0x18, 'NEXT')
    a.label('FLAG')
    a.db(0xCB, 0x10 + ear)                   # RL ear (keeps the carry flag safe)
    a.db(0xA8 + b)                           # XOR byt
    a.db(0xC0)                               # RET NZ
    ld_a_r(ear)
    a.db(0x1F)
    ld_r_a(ear)
    a.db(0x03 + 16 * rp)                     # INC len
    a.jr(0x18, 'DEC')
    a.label('NEXT')
    a.db(0xDD, 0x23)                         # INC IX
    a.label('DEC')
    a.db(0x0B + 16 * rp)                     # DEC len
    a.db(0x08)
    ld_r_n(ctr, K(0xB2))
    a.label('MARKER')
    ld_r_n(b, 0x01)
    a.label('BITS')
    a.jp(0xCD, 'EDGE2')
    a.db(0xD0)
    if inc:
        a.db(0x3E, 0xCB, 0xB8 + ctr)
    else:
        ld_a_r(ctr)
        a.db(0xFE, 0x100 - 0xCB)
    a.db(0xCB, 0x10 + b)                     # RL byt
    ld_r_n(ctr, K(0xB0))
    a.jp(0xD2, 'BITS')
    if par:
        ld_a_r(p)
        a.db(0xA8 + b)
        ld_r_a(p)
    ld_a_r(lh)
    a.db(0xB0 + ll)
    a.jr(0x20, 'LOOP')
    if par:
        ld_a_r(p)
    else:
        a.db(0xAF)
    a.db(0xFE, 0x01)
    a.db(0xC9)
    a.label('EDGE2')
    a.jp(0xCD, 'EDGE1')
    a.db(0xD0)
    a.label('EDGE1')
    n = delay_n(delay_kind, 352 * scale)
    delay_code(a, delay_kind, n, 'e')
    a.db(0xA7)                               # AND A
    emit_loop(a, shape, 'SAMPLE', fill, rng, 'TMO')
    fwd = FORWARD.get(shape.name, {})
    if shape.name == 'software-projects':
        a.label('TMO')
        a.db(0xC9)                           # counter exhausted: RET (Z set, carry clear)
    else:
        a.jp(0xC3, 'TAIL')
        for off in sorted(fwd):
            a.pad_to('SAMPLE', off)
            a.db(0xC9)
        a.label('TMO')
        a.db(0xC9)
    a.label('TAIL')
    ld_a_r(ear)
    if exact:
        a.db(0xEE, shape.mask)
        ld_r_a(ear)
    else:
        a.db(0x2F)                           # CPL
        ld_r_a(ear)
        a.db(0xE6, 0x07, 0xF6, 0x08, 0xD3, 0xFE)
    a.db(0x37, 0xC9)                         # SCF; RET
    code, labels = a.assemble()
    if shape.name == 'software-projects':
        assert labels['TAIL'] == labels['SAMPLE'] + 13
    return code, labels, {'len_pair': lenp, 'parity': par is not None}

# ------------------------------------------------------------------ 'cycle' skeleton (polarity-sensitive pairs)

def build_cycle_loader(pair, org, delay_kind, rng, swap, wait_delay=None):
    """Loader timing one low+high cycle per bit. The block format is raw bytes (no flag, no parity).
    swap=0: wait while low, then while high (bit pairs must be low,high); swap=1: the other way round."""
    s0, s1 = SHAPE[CYCLE_PAIRS[pair][0]], SHAPE[CYCLE_PAIRS[pair][1]]
    ctr = R8[s0.ctr]
    maskreg = {'audiogenic': 'B', 'gremlin2': 'H', 'kwc': None}[pair]
    used = {s0.ctr} | ({maskreg} if maskreg else set())
    lenp = [pr for pr in ('DE', 'HL', 'BC') if not set(pr) & used][0]
    used |= set(lenp)
    free = [r for r in 'HLBCDE' if r not in used]
    byt = R8[free[0]]
    lh, ll, rp = R8[lenp[0]], R8[lenp[1]], PAIRS[lenp]
    lt = s0.loop_time
    a = Asm(org)
    a.label('LDB')
    a.db(0xF3)
    a.db(0x3E, 0x0F, 0xD3, 0xFE)
    if maskreg:
        a.db(0x06 + 8 * R8[maskreg], 0x40)
    if wait_delay:
        # before the search for the pilot tone (a delay after it would make the next, partial cycle look like the sync pulses)
        boundary_delay(a, wait_delay, 'w')
    npil = rng.choice([0x10, 0x30])
    a.label('PILOT')
    a.db(0x06 + 8 * byt, npil)               # LD byt,npil
    a.label('P1')
    a.db(0x06 + 8 * ctr, 0x00)
    a.jp(0xCD, 'CYCLE')
    a.db(0x3E, 58, 0xB8 + ctr)               # LD A,58; CP ctr  -> carry iff ctr > 58 (a pilot cycle)
    a.jr(0x30, 'PILOT')
    a.db(0x05 + 8 * byt)
    a.jr(0x20, 'P1')
    a.label('SYNC')
    a.db(0x06 + 8 * ctr, 0x00)
    a.jp(0xCD, 'CYCLE')
    a.db(0x3E, 40, 0xB8 + ctr)               # carry iff ctr > 40: still pilot
    a.jr(0x38, 'SYNC')
    a.label('BYTE')
    a.db(0x06 + 8 * byt, 0x01)
    a.label('BIT')
    a.db(0x06 + 8 * ctr, 0x00)
    a.jp(0xCD, 'CYCLE')
    a.db(0x3E, 35, 0xB8 + ctr)               # carry iff ctr > 35: a 1 bit
    a.db(0xCB, 0x10 + byt)                   # RL byt
    a.jr(0x30, 'BIT')
    a.db(0xDD, 0x70 + byt, 0x00)
    a.db(0xDD, 0x23)
    a.db(0x0B + 16 * rp)
    a.db(0x78 + lh, 0xB0 + ll)
    a.jr(0x20, 'BYTE')
    a.db(0x37, 0xC9)
    a.label('CYCLE')
    n = delay_n(delay_kind, 5.5 * lt)
    delay_code(a, delay_kind, n, 'c')
    first, second = (s0, s1) if not swap else (s1, s0)
    emit_loop(a, first, 'SAMPLE', 'nop', rng, 'TMO')
    if pair == 'audiogenic':
        # the JR Z (counter overflow) displacements are fixed by the signatures: +25 from the start of -0, +16 from -1
        if not swap:
            emit_loop(a, second, 'SAMPLE2', 'nop', rng, 'TMO')
            a.db(0xC9)
            a.pad_to('SAMPLE', 25)           # = SAMPLE2 + 16
            a.label('TMO')
            a.db(0xC9)
        else:
            a.jr(0x18, 'SAMPLE2')
            a.pad_to('SAMPLE', 16)
            a.label('TMO')
            a.db(0xC9)
            emit_loop(a, second, 'SAMPLE2', 'nop', rng, 'TMO')
            a.db(0xC9)
            a.pad_to('SAMPLE2', 25)
            a.db(0xC9)
    else:
        emit_loop(a, second, 'SAMPLE2', 'nop', rng, 'TMO')
        a.db(0xC9)
        a.label('TMO')
        a.db(0xC9)
    code, labels = a.assemble()
    return code, labels, {'len_pair': lenp, 'parity': False}

# ------------------------------------------------------------------ stub + whole program

def build_program(loader, org, rng, blocks, fill='ret', delay_kind='jr', swap=0, ending='loop', init_ctr=True, wait_delay=None, post_delay=None):
    """blocks: list of dicts {dest, data(bytes), flag}. Returns dict(code, org, fin, loader_info, labels).
    wait_delay / post_delay: (kind, value, use_xor) boundary-value DEC A delay loops - inside the loader while the pilot tone
    is playing, and in the stub after the last block has been loaded (just before FIN)."""
    kind, accs = LOADERS[loader]
    stub_len = 3 + len(blocks) * 14 + 8 + 8
    lorg = org + stub_len
    if kind == 'edge':
        lcode, labels, info = build_edge_loader(SHAPE[loader], lorg, fill, delay_kind, rng, init_ctr, wait_delay)
    else:
        lcode, labels, info = build_cycle_loader(loader, lorg, delay_kind, rng, swap, wait_delay)
    rp = PAIRS[info['len_pair']]
    a = Asm(org)
    a.db(0x00, 0x00, 0x00)
    for i, blk in enumerate(blocks):
        a.db(0xDD, 0x21, blk['dest'] & 0xFF, blk['dest'] >> 8)
        n = len(blk['data'])
        a.db(0x01 + 16 * rp, n & 0xFF, n >> 8)
        a.db(0x3E, blk['flag'], 0x37)
        a.db(0xCD, labels['LDB'] & 0xFF, labels['LDB'] >> 8)
        a.db(0x00)
    if post_delay:
        boundary_delay(a, post_delay, 'p')
    a.label('FIN')
    if ending == 'halt':
        a.db(0xF3, 0x76)
    a.label('SPIN')
    a.jr(0x18, 'SPIN')
    code, slabels = a.assemble()
    assert len(code) <= stub_len
    code += bytes(stub_len - len(code))
    return {'code': code + lcode, 'org': org, 'fin': slabels['FIN'], 'labels': labels, 'info': info, 'kind': kind, 'accs': accs,
            'sample': labels['SAMPLE'], 'swap': swap}

# ------------------------------------------------------------------ tape containers

def tap_blocks(tap):
    out = []
    i = 0
    while i + 2 <= len(tap):
        n = tap[i] + 256 * tap[i + 1]
        out.append(bytes(tap[i + 2:i + 2 + n]))
        i += 2 + n
    return out

def _w(n):
    return bytes((n & 0xFF, (n >> 8) & 0xFF))

def tzx_header():
    return b'ZXTape!\x1a\x01\x14'

def tzx_std(data, pause=1000):
    return b'\x10' + _w(pause) + _w(len(data)) + bytes(data)

def tzx_turbo(data, pilot, sync1, sync2, zero, one, npilot, pause, used_bits=8):
    n = len(data)
    return (b'\x11' + _w(pilot) + _w(sync1) + _w(sync2) + _w(zero) + _w(one) + _w(npilot) + bytes((used_bits,)) + _w(pause)
            + bytes((n & 0xFF, (n >> 8) & 0xFF, n >> 16)) + bytes(data))

def tzx_tone(length, count):
    return b'\x12' + _w(length) + _w(count)

def tzx_pulses(lengths):
    return b'\x13' + bytes((len(lengths),)) + b''.join(_w(x) for x in lengths)

def tzx_pure_data(data, zero, one, pause, used_bits=8):
    n = len(data)
    return b'\x14' + _w(zero) + _w(one) + bytes((used_bits,)) + _w(pause) + bytes((n & 0xFF, (n >> 8) & 0xFF, n >> 16)) + bytes(data)

def tzx_pause(ms):
    return b'\x20' + _w(ms)

def block_bytes(kind, blk):
    """What goes on the tape for one custom block."""
    data = bytes(blk['data'])
    if kind == 'cycle':
        return data
    body = bytes((blk['flag'],)) + data
    par = 0
    for x in body:
        par ^= x
    return body + bytes((par,))

def custom_tzx(prefix_tap, prog, blocks, rng, container='turbo', prefix_pause=1000, block_pauses=None, tape_pol=0, jitter=0, splits=None):
    """prefix_tap: bytes of the bin2tap-made TAP file; returns TZX bytes.
    splits[i] = (pulses, ms): block i is preceded by a false start - a short pilot tone and a silence - which belongs to the
    same data block as far as tap2sna is concerned, so the loader runs into counter time-outs while the tape is playing."""
    kind = prog['kind']
    lt = SHAPE[prog['accs'][0]].loop_time
    s = lt / 59.0
    out = [tzx_header()]
    tb = tap_blocks(prefix_tap)
    npulses = 0                                               # pulses so far: pulse k (1-based) is low when k + polarity is odd
    for i, b in enumerate(tb):
        out.append(tzx_std(b, 1000 if i + 1 < len(tb) else prefix_pause))
        npulses += (8063 if b[0] < 128 else 3223) + 2 + 16 * len(b)
    for i, blk in enumerate(blocks):
        pause = block_pauses[i] if block_pauses else 0
        pilot = round(2168 * s) + jitter
        sync1, sync2 = round(667 * s), round(735 * s)
        zero, one = round(855 * s) + jitter, round(1710 * s) + jitter
        npilot = blk.get('npilot', 1600)
        if splits and splits[i]:
            out.append(tzx_tone(pilot, splits[i][0]))
            out.append(tzx_pause(splits[i][1]))
            npulses += splits[i][0]
        if kind == 'cycle':
            # cycles are timed from a falling edge (rising when the loops are swapped): the first pulse of each bit
            # (pulse npulses + npilot + 3) must be low (high when swapped)
            npilot += (npulses + npilot + tape_pol + prog['swap']) % 2
        data = block_bytes(kind, blk)
        if kind == 'cycle':
            data += b'\x00'                                   # a trailing byte so that the last cycle is closed by an edge
        if container == 'turbo':
            out.append(tzx_turbo(data, pilot, sync1, sync2, zero, one, npilot, pause))
        else:
            out.append(tzx_tone(pilot, npilot))
            out.append(tzx_pulses([sync1, sync2]))
            out.append(tzx_pure_data(data, zero, one, pause))
        npulses += npilot + 2 + 16 * len(data)
    return b''.join(out)

def std_tzx(tap, pauses=None, rng=None):
    tb = tap_blocks(tap)
    out = [tzx_header()]
    for i, b in enumerate(tb):
        out.append(tzx_std(b, pauses[i] if pauses else 1000))
    return b''.join(out)

def tap_duration(tap):
    """T-states from the first pilot edge to the end of the last block of a TAP file (1 s pause after each block)."""
    t = 0
    for b in tap_blocks(tap):
        t += (8063 if b and b[0] < 128 else 3223) * 2168 + 667 + 735
        t += sum(2 * (1710 if (x << k) & 0x80 else 855) for x in b for k in range(8))
        t += 3500000
    return t

def tzx_duration(tzx):
    """T-states covered by a TZX file made of the block types this module writes (0x10-0x14, 0x20)."""
    i = 10
    t = 0
    def w(k):
        return tzx[k] + 256 * tzx[k + 1]
    def bits(data, zero, one):
        return sum(2 * (one if (x << k) & 0x80 else zero) for x in data for k in range(8))
    while i < len(tzx):
        bid = tzx[i]
        if bid == 0x10:
            n = w(i + 3)
            data = tzx[i + 5:i + 5 + n]
            t += (8063 if data and data[0] < 128 else 3223) * 2168 + 667 + 735 + bits(data, 855, 1710) + w(i + 1) * 3500
            i += 5 + n
        elif bid == 0x11:
            n = tzx[i + 16] + 256 * tzx[i + 17] + 65536 * tzx[i + 18]
            data = tzx[i + 19:i + 19 + n]
            t += w(i + 1) * w(i + 11) + w(i + 3) + w(i + 5) + bits(data, w(i + 7), w(i + 9)) + w(i + 14) * 3500
            i += 19 + n
        elif bid == 0x12:
            t += w(i + 1) * w(i + 3)
            i += 5
        elif bid == 0x13:
            k = tzx[i + 1]
            t += sum(w(i + 2 + 2 * j) for j in range(k))
            i += 2 + 2 * k
        elif bid == 0x14:
            n = tzx[i + 8] + 256 * tzx[i + 9] + 65536 * tzx[i + 10]
            data = tzx[i + 11:i + 11 + n]
            t += bits(data, w(i + 1), w(i + 3)) + w(i + 6) * 3500
            i += 11 + n
        elif bid == 0x20:
            t += w(i + 1) * 3500
            i += 3
        else:
            raise ValueError('unexpected TZX block 0x%02X' % bid)
    return t
