"""C20 workload generator: start states + programs to record (IN, HALT, EI/DI, IM 1/2, DD/FD chains, LD A,I/R,
block I/O, self-modification, 128K paging and AY writes), and recording parameters (frame lengths, frame counts)."""
import random

from vk.gens import proggen

DATA = 0xB000
ONE_BYTE = [0x00, 0x04, 0x05, 0x0C, 0x0D, 0x14, 0x1C, 0x3C, 0x3D, 0x07, 0x0F, 0x17, 0x1F, 0x27, 0x2F, 0x37, 0x3F, 0x08, 0x80, 0x81, 0x88, 0x90,
            0x98, 0xA0, 0xA8, 0xB0, 0xB8, 0x87, 0x97, 0xAF, 0xB7, 0x47, 0x4F, 0x78, 0x79, 0x7E, 0x77, 0x70, 0x71, 0x86, 0x96, 0xBE, 0x34, 0x35,
            0x23, 0x2B, 0x13, 0x1B, 0x03, 0x0B, 0x12, 0x1A, 0x02, 0x0A, 0xEB]
PORTS_LO = [0xFE, 0xFE, 0x1F, 0xFF, 0xFD, 0x7F]

def w(v):
    return [v & 0xFF, (v >> 8) & 0xFF]

RF = [False]     # "ref friendly": avoid PUSH AF, BIT n,(HL) and block instructions that repeat (see c20.py, refz80-driven recordings)

def blk_in(rng):
    k = rng.randrange(7)
    if k == 0:
        return [0xDB, rng.choice(PORTS_LO + [rng.randrange(256)])]
    if k == 1:
        return [0x3E, rng.choice([0xFE, 0x7F, 0xBF, rng.randrange(256)]), 0xDB, 0xFE]
    if k == 2:
        return [0x01] + [rng.choice(PORTS_LO), rng.choice([0xFE, 0x7F, 0xBF, 0xFF, rng.randrange(256)])] + [0xED, 0x40 + 8 * rng.randrange(8)]
    if k == 3:
        return [0x21] + w(DATA + rng.randrange(0x400)) + [0x01, 0xFE, rng.randrange(1, 5)] + [0xED, rng.choice([0xA2, 0xAA])]
    if k == 4:
        return [0x21] + w(DATA + 0x100 + rng.randrange(0x300)) + [0x01, rng.choice(PORTS_LO), 1 if RF[0] else rng.randrange(1, 7)] + [0xED, rng.choice([0xB2, 0xBA])]
    if k == 5:
        return [0xED, 0x70]                                           # IN F,(C) with whatever BC holds
    return [0xDB, 0xFE, 0xDB, 0xFE, 0xED, 0x78]

def blk_halt(rng):
    k = rng.random()
    if k < 0.8:
        return [0xFB, 0x76]
    if k < 0.97:
        return [0xFB, 0x00, 0x76]
    return [0x76]

def blk_eidi(rng):
    return list(rng.choice([[0xFB], [0xF3], [0xFB, 0xFB], [0xFB, 0xF3], [0xF3, 0xFB], [0xFB, 0x00], [0xFB, 0xED, 0x5F], [0xFB, 0xDD], [0xF3, 0xED, 0x57]]))

def blk_im(rng):
    if RF[0]:
        return [0xED, 0x5E]
    return [0xED, rng.choice([0x46, 0x56, 0x5E, 0x56, 0x5E, 0x4E, 0x66, 0x76, 0x7E])]

def blk_prefix(rng):
    chain = [rng.choice([0xDD, 0xFD]) for _ in range(rng.choice([1, 1, 2, 3, 5]))]
    tail = rng.choice([
        [0x21] + w(DATA + 0x80), [0x23], [0x2B], [0x7E, rng.randrange(256)], [0x34, rng.randrange(256)], [0x77, rng.randrange(256)],
        [0xE5, chain[-1], 0xE1], [0x09], [0x24], [0x2D], [0x66, 0x01], [0x84], [0xAE, 0x02], [0x36, 0x03, rng.randrange(256)],
        [0x00], [0x3E, rng.randrange(256)], [0x04], [0xED, 0x44], [0xED, 0x5F], [0xFB], [0xF3], [0xDB, 0xFE], [0x76] if rng.random() < 0.2 else [0x00],
        [0xCB, rng.randrange(256), (rng.randrange(256) & 0xF8) | 6], [0xCB, 0x02, rng.randrange(256)], [0xEB], [0xD9, 0xD9], [0x18, 0x00],
    ])
    return chain + list(tail)

def blk_ldair(rng):
    return list(rng.choice([[0xED, 0x5F], [0xED, 0x57], [0xED, 0x5F, 0xED, 0x4F], [0xED, 0x4F], [0xFB, 0xED, 0x57], [0xED, 0x5F, 0x77]]))

def blk_arith(rng):
    return [rng.choice(ONE_BYTE) for _ in range(rng.randint(1, 6))]

def blk_mem(rng):
    k = rng.randrange(6)
    if k == 0:
        return [0x21] + w(DATA + rng.randrange(0x800)) + [0x77, 0x23, 0x36, rng.randrange(256)]
    if k == 1:
        return [0x32] + w(DATA + rng.randrange(0x800)) + [0x3A] + w(DATA + rng.randrange(0x800))
    if k == 2:
        return [0xC5, 0xD5, 0xE1, 0xC1]
    if k == 3 and not RF[0]:
        return [0xF5, 0xC1, 0xC5, 0xF1]                                # PUSH AF / POP BC / PUSH BC / POP AF
    if k == 4:
        return [0xED, 0x43] + w(DATA + 0x700) + [0xED, 0x5B] + w(DATA + 0x700)
    return [0x11] + w(DATA + 0x400 + rng.randrange(0x100)) + [0x1A, 0x12, 0x13]

def blk_bit(rng):
    out = []
    for _ in range(rng.randint(1, 3)):
        out += [0xCB, (rng.randrange(256) & 0xF8) | rng.choice([0, 1, 7] if RF[0] else [0, 1, 6, 6, 7])]
    return out

def blk_loop(rng):
    body = [b for b in blk_arith(rng) if b not in (0x04, 0x05, 0x47)] or [0x00]    # leave B alone
    if rng.random() < 0.3:
        body += [0xDB, rng.choice(PORTS_LO)]
    n = len(body) + 2
    return [0x06, rng.randint(1, 12)] + body + [0x10, (-n) & 0xFF]

def blk_delay(rng):
    return [0x06, rng.choice([1, 2, 5, 20, 60]), 0x10, 0xFE]

def blk_ldir(rng):
    return [0x21] + w(DATA + rng.randrange(0x100)) + [0x11] + w(DATA + 0x200 + rng.randrange(0x100)) + [0x01] + w(1 if RF[0] else rng.randint(1, 20)) + [0xED, rng.choice([0xB0, 0xB8, 0xB1, 0xA0])]

def blk_border(rng):
    return [0x3E, rng.randrange(256), 0xD3, rng.choice([0xFE, 0xFE, 0xFC, 0x00])]

def blk_paging(rng):
    k = rng.random()
    v = rng.choice([0, 1, 3, 4, 6, 7, 0x10, 0x11, 0x17, 0x08, rng.randrange(32)])
    if k < 0.04:
        v |= 0x20
    if k < 0.7:
        return [0x01, 0xFD, 0x7F, 0x3E, v, 0xED, 0x79]
    if k < 0.8:
        return [0x01, 0xFD, rng.choice([0x3F, 0x5F, 0x00]), 0x3E, v, 0xED, 0x79]       # partial decoding: A15 and A1 low
    if k < 0.9:
        return [0x3E, v & 0x1F, 0xD3, 0xFD]                                # OUT (FD),A with A on the high half: decoded when A < 0x80
    return [0x01, 0xFD, 0xFF, 0x3E, rng.choice([0, 7, 8, 13, 15, 16, 200]), 0xED, 0x79, 0x06, 0xBF, 0x3E, rng.randrange(256), 0xED, 0x79]

LOCKVARS = DATA + 0x7E0
TAGADDR = 0xF000                       # offset 0x3000 of whichever bank is paged in at 0xC000: holds 0xB0 + bank number

def out_7ffd(rng, v, match=True):
    """Write v to the paging port (match: an address the 128K decodes as 0x7FFD, A15 and A1 low) or to a near miss."""
    if match:
        how = rng.choice(['c', 'c', 'c3', 'c5', 'n', 'e'])
        if how == 'n' and v < 0x80:
            return [0x3E, v, 0xD3, 0xFD]                                  # OUT (0xFD),A: port = A*256 + 0xFD
        hi = {'c3': 0x3F, 'c5': 0x5F}.get(how, 0x7F)
        if how == 'e':
            return [0x01, 0xFD, hi, 0x1E, v, 0xED, 0x59]                  # LD BC,nnFD ; LD E,v ; OUT (C),E
        return [0x01, 0xFD, hi, 0x3E, v, 0xED, 0x79]                      # LD BC,nnFD ; LD A,v ; OUT (C),A
    if rng.random() < 0.25:
        return [0x3E, v | 0x80, 0xD3, 0xFD]                               # A15 high: not the paging port
    port = rng.choice([0x7FFF, 0xFFFD, 0xBFFD, 0x7FFE, 0xFFFF, 0xFFFD])
    return [0x01, port & 0xFF, port >> 8, 0x3E, v, 0xED, 0x79]

def tag_probe(rng, slot):
    """Bank- and ROM-dependent reads, copied into fixed RAM (bank 2) and used in branches."""
    tag = 0xB0 + rng.randrange(8)
    return ([0x3A] + w(TAGADDR) + [0x32] + w(LOCKVARS + slot) + [0xFE, tag, 0x28, 0x04, 0x21] + w(LOCKVARS + 8) + [0x34] +      # CP tag; JR Z,+4; LD HL,n; INC (HL)
            [0x3A, 0x01, 0x00, 0x32] + w(LOCKVARS + 4 + slot) + [0x07, 0x30, 0x01, 0x2F, 0x32] + w(LOCKVARS + 9))                # ROM byte 1; RLCA; JR NC,+1; CPL

def blk_lockseq(rng):
    """0x7FFD history: (bank select,) LOCK (bit 5 set), then further writes with bit 5 clear and set, selecting other banks /
    the other ROM, to decoded and to undecoded addresses, each followed by bank/ROM-dependent reads. The block sits in the
    program's main loop, so all of it is repeated in every later frame while the machine is locked."""
    out = []
    cur = rng.randrange(8) | (rng.randrange(2) << 4)
    if rng.random() < 0.6:
        out += out_7ffd(rng, cur)
        out += tag_probe(rng, 0)
    lock = 0x20 | rng.randrange(8) | (rng.randrange(2) << 4) | (8 if rng.random() < 0.2 else 0)
    out += out_7ffd(rng, lock)
    out += tag_probe(rng, 1)
    n = 0
    for _ in range(rng.randint(2, 4)):
        if rng.random() < 0.3:
            out += out_7ffd(rng, rng.choice([0x00, 0x07, 0x10, 0x20, 0x27, rng.randrange(64)]), match=False)
        v = (lock ^ rng.choice([1, 2, 3, 4, 7, 0x10, 0x11, 0x17])) & 0x1F          # another bank and/or the other ROM
        if n == 0 or rng.random() < 0.6:
            v &= 0x1F                                                            # bit 5 clear
        else:
            v |= 0x20
        out += out_7ffd(rng, v)
        out += tag_probe(rng, 2 + (n & 1))
        n += 1
    return out

def blk_ay(rng):
    reg = rng.choice([15, 15, 16, 14, 0, 7, 13, 31, 255, rng.randrange(16)])
    return [0x01, 0xFD, 0xFF, 0x3E, reg, 0xED, 0x79, 0x06, 0xBF, 0x3E, rng.randrange(1, 256), 0xED, 0x79]

def blk_selfmod(rng, slots):
    if not slots:
        return [0x00]
    return [0x3E, rng.choice([0x00, 0x00, 0xFB, 0xF3, 0x3C, 0x76, 0xDD, 0xFD, 0xED]), 0x32] + w(rng.choice(slots))

def isr_im2(rng, counter):
    save = 0x08 if RF[0] else 0xF5              # EX AF,AF' or PUSH AF
    code = [save]
    if rng.random() < 0.3:
        code += [0xFB]                                                  # early EI: nested interrupts
    if rng.random() < 0.6:
        code += blk_in(rng)[:2] if rng.random() < 0.5 else [0xDB, 0xFE]
        if code[-2] != 0xDB:
            code += [0x00]
    if rng.random() < 0.7:
        code += [0xE5, 0x21] + w(counter) + [0x34, 0xE1]
    if rng.random() < 0.3:
        code += [0xED, 0x5F]
    code += [0x08 if RF[0] else 0xF1]
    k = rng.random()
    if k < 0.7:
        code += [0xFB]
    code += list(rng.choice([[0xC9], [0xED, 0x4D], [0xED, 0x45]]))
    return code

def main_program(rng, org, is128, extra=(), front=False):
    """Prologue + loop of blocks + JP loop (+ a subroutine)."""
    pro = []
    pro += [rng.choice([0xF3, 0xFB, 0x00])]
    if rng.random() < 0.6:
        pro += [0xED, 0x5E if RF[0] else rng.choice([0x56, 0x5E, 0x5E, 0x46])]
    loop_at = org + len(pro)
    makers = [blk_in] * 5 + [blk_halt] * 3 + [blk_eidi] * 3 + [blk_prefix] * 4 + [blk_ldair] * 3 + [blk_arith] * 4 + [blk_mem] * 3 + [blk_bit] * 2 + \
             [blk_loop] * 2 + [blk_delay] * 2 + [blk_ldir] * 2 + [blk_border] * 2 + [blk_im] + [blk_ldair] * 2 + [blk_ay]
    if is128:
        makers += [blk_paging] * 5 + [blk_ay] * 3
    body = list(extra) if front else []
    slots = []
    sub_calls = []
    for _ in range(rng.randint(3, 14)):
        k = rng.random()
        if k < 0.06:
            slots.append(loop_at + len(body))
            body += [0x00]
        elif k < 0.11:
            body += blk_selfmod(rng, slots)
        elif k < 0.16:
            sub_calls.append(len(body) + 1)
            body += [0xCD, 0, 0]
        else:
            if rng.random() < 0.3:
                body += [0xFB]
            body += rng.choice(makers)(rng)
    if not front:
        body += list(extra)
    if rng.random() < 0.8 and 0xFB not in body:
        body += [0xFB]
    end = loop_at + len(body)
    body += [0xC3] + w(loop_at)
    sub_at = end + 3
    sub = blk_arith(rng) + (blk_in(rng) if rng.random() < 0.5 else []) + [rng.choice([0xC9, 0xC9, 0xD8, 0xC0])] + [0xC9]
    for off in sub_calls:
        body[off], body[off + 1] = sub_at & 0xFF, (sub_at >> 8) & 0xFF
    return pro + body + sub

def soup_program(rng, org, extra=(), front=False):
    """Dense mix of the instructions the frame-boundary rules single out, so that short frames end on all of them."""
    items = []
    n = rng.randint(12, 60)
    while len(items) < n:
        k = rng.random()
        if k < 0.22:
            items.append([0xFB])
        elif k < 0.36:
            items.append([0xED, rng.choice([0x5F, 0x5F, 0x57])])
        elif k < 0.47:
            items.append(blk_prefix(rng))
        elif k < 0.52:
            items.append([0xFB, 0x76])
        elif k < 0.66:
            items.append([0xDB, rng.choice(PORTS_LO)])
        elif k < 0.71:
            items.append([0xED, 0x40 + 8 * rng.randrange(8)])
        elif k < 0.85:
            items.append([rng.choice([0x00, 0x3C, 0x3D, 0x0C, 0x14, 0x87, 0xAF, 0x2F, 0x37])])
        elif k < 0.88:
            items.append([0xF3])
        elif k < 0.91:
            items.append([0x3E, rng.randrange(256), 0xD3, 0xFE])
        elif k < 0.93:
            items.append([0xED, 0x4F])
        elif k < 0.96:
            items.append([0x21] + w(DATA + 0x40) + [0x01, 0xFE, 0x03, 0xED, 0xA2])
        else:
            items.append(blk_mem(rng) if rng.random() < 0.5 else blk_ay(rng))
    code = [b for it in items for b in it]
    if front:
        code = list(extra) + code
    else:
        code = code + list(extra)
    return code + [0xFB] * (rng.random() < 0.7) + [0xC3] + w(org)

MICRO = [
    [0xFB, 0x76, 0x18, 0xFC],                       # EI; HALT; JR -4
    [0x76, 0x18, 0xFD],                             # HALT; JR -3  (IFF as given)
    [0xFB, 0xED, 0x5F, 0x18, 0xFB],                 # EI; LD A,R; JR
    [0xFB, 0xED, 0x57, 0xF5, 0xF1, 0x18, 0xF9],     # EI; LD A,I; PUSH AF; POP AF; JR
    [0xFB, 0xFB, 0xFB, 0x18, 0xFB],                 # EI; EI; EI; JR
    [0xFB, 0x18, 0xFD],                             # EI; JR -3
    [0xDD, 0xFD, 0xDD, 0xFD, 0x21, 0x34, 0x12, 0xFB, 0x18, 0xF7],
    [0xDD, 0xDD, 0xDD, 0x00, 0xFD, 0xCB, 0x01, 0x46, 0xFB, 0x18, 0xF6],
    [0xDB, 0xFE, 0xFB, 0x18, 0xFB],                 # IN A,(FE); EI; JR
    [0xDB, 0xFE, 0x18, 0xFC],                       # IN A,(FE); JR  (same readings every frame with constant inputs)
    [0x21, 0x00, 0xB4, 0x01, 0xFE, 0x06, 0xED, 0xB2, 0xFB, 0x18, 0xF4],   # INIR x6; EI; JR
    [0xFB, 0xED, 0x4F, 0xED, 0x5F, 0x18, 0xF9],     # EI; LD R,A; LD A,R; JR
    [0xFB, 0xDD, 0x76, 0x18, 0xFB],                 # EI; DD; HALT; JR
    [0xFB, 0x00, 0x00, 0x76, 0xF3, 0x18, 0xF9],
    [0x3E, 0x76, 0x32, 0x05, 0x80, 0x00, 0xFB, 0x18, 0xF7],   # writes HALT over a later NOP (assumes org 0x8000)
]

def background(rng, n):
    k = rng.random()
    if k < 0.45:
        return bytearray(n)
    if k < 0.8:
        return bytearray(rng.randbytes(n))
    return bytearray([rng.choice([0xFF, 0xC9, 0x76, 0x18, 0xDD, 0xFB, 0xDB])]) * n

def gen_case(rng, allow_real=True, ref_friendly=False):
    """-> (state dict in the c09 snapshot layout, meta dict)."""
    RF[0] = ref_friendly
    is128 = rng.random() < 0.4
    kind = rng.choices(['main', 'soup', 'micro', 'random'], [0.4, 0.3, 0.15, 0 if ref_friendly else 0.15])[0]
    lrng = random.Random('lock/%r' % (rng.getstate()[1][:6],))      # separate stream: the main one is not consumed
    lockseq = blk_lockseq(lrng) if is128 and kind in ('main', 'soup', 'micro') and lrng.random() < (0.5 if kind == 'micro' else 0.75) else None
    lock_front = lrng.random() < 0.6
    img = background(rng, 65536)                      # logical 64K view under the initial paging (ROM part ignored)
    i_page = rng.choice([0xBE, 0xBE, 0xFE, 0x80, 0x5B, 0x3B, 0x00, 0x3F, rng.randrange(256)])
    if ref_friendly:
        i_page = rng.choice([0xBE, 0xFE, 0x80, 0x5B])
    handler_b = rng.choice([0xBD, 0xBD, 0xA1, 0x9F])
    handler = handler_b * 257
    if 0x40 <= i_page <= 0xFE:
        for a in range(i_page * 256, i_page * 256 + 257):
            img[a] = handler_b
    counter = DATA + 0x7F0
    isr = isr_im2(rng, counter)
    if kind == 'soup' and rng.random() < 0.6:
        isr = list(rng.choice([[0xFB, 0xC9], [0xFB, 0xC9], [0xC9], [0x3C, 0xFB, 0xC9], [0xDB, 0xFE, 0xFB, 0xC9], [0xFB, 0xED, 0x4D]]))
    img[handler:handler + len(isr)] = bytes(isr)
    # something sane where a vector read from ROM / stray table lands
    img[0xFFFF] = rng.choice([0xC9, 0xFB, 0x18, 0x00])
    img[0xFFF4:0xFFF4 + 3] = bytes([0xFB, 0xC9, 0x00])
    if kind == 'micro':
        org = rng.choice([0x8000, 0x8000, 0x7FFE, 0x6000, 0xFFFC - 8])
        code = list(rng.choice([m for m in MICRO if not (ref_friendly and (0xF5 in m or 0xB2 in m))]))
        if org == 0xFFFC - 8 and rng.random() < 0.5:
            # HALT as the very last byte of memory: the PC step at the frame boundary wraps to 0
            code = [0xFB, 0x76]
            org = 0xFFFE
        if lockseq:
            # 128K micro loop: the paging history, then EI and a port read, for ever
            org = 0x8000
            code = list(lockseq) + [0xFB, 0xDB, 0xFE, 0xC3] + w(org)
    elif kind == 'main':
        org = rng.choice([0x8000, 0x8000, 0x6000, 0x7FF0, 0xC000, 0xBFF8, 0x9000])
        code = main_program(rng, org, is128, lockseq or (), lock_front)
    elif kind == 'soup':
        org = rng.choice([0x8000, 0x8000, 0x6000, 0x7FF0, 0xC000, 0x9000])
        code = soup_program(rng, org, lockseq or (), lock_front)
    else:
        org = rng.choice([0x8000, 0x6000, 0xC000, 0x7FF0])
        code = proggen.program_bytes(rng, rng.choice([30, 100, 300]), org)
    for k, b in enumerate(code):
        img[(org + k) & 0xFFFF] = b & 0xFF
    sp = rng.choice([0xAF00, 0xAF00, 0xAF00, 0x5D00, 0x0000, 0xFFFE, 0x4001, 0x4000, 0x3F00, 0xAF01, rng.randrange(65536)])
    st = {
        'a': rng.randrange(256), 'f': rng.randrange(256), 'a2': rng.randrange(256), 'f2': rng.randrange(256),
        'bc': rng.choice([0x00FE, 0x7FFE, 0x05FE, rng.randrange(65536)]), 'de': DATA + 0x300 + rng.randrange(0x100), 'hl': DATA + rng.randrange(0x200),
        'bc2': rng.randrange(65536), 'de2': DATA + 0x500, 'hl2': DATA + 0x600,
        'ix': DATA + 0x180, 'iy': DATA + 0x280, 'sp': sp, 'pc': org, 'i': i_page, 'r': rng.randrange(256),
        'im': rng.choice([1, 2, 2, 2, 2, 0]), 'border': rng.randrange(8), 'issue2': 0, 'memptr': rng.randrange(65536),
        'outfe': rng.randrange(256), 'outfffd': rng.choice([0, 7, 15, 16, rng.randrange(256)]), 'ay': tuple(rng.randrange(256) for _ in range(16)),
    }
    st['iff1'] = st['iff2'] = rng.choice([1, 1, 0])
    if ref_friendly:
        st['im'] = 2
    if is128:
        o7 = rng.choice([0, 0x10, 0x11, 0x07, 0x17, 0x03, rng.randrange(32)])
        st['machine'] = '128K'
        st['out7ffd'] = o7
        banks = [bytearray(rng.randbytes(16384)) if rng.random() < 0.5 else bytearray(16384) for _ in range(8)]
        banks[5] = bytearray(img[0x4000:0x8000])
        banks[2] = bytearray(img[0x8000:0xC000])
        top = o7 & 7
        if top not in (2, 5):
            banks[top] = bytearray(img[0xC000:])
        if rng.random() < 0.5:
            # the same code and handlers in every other bank that can be paged in at 0xC000
            for b in range(8):
                if b not in (2, 5, top):
                    banks[b] = bytearray(img[0xC000:])
        # a marker so that the banks differ
        for b in range(8):
            if b not in (2, 5):
                banks[b][0x3000] = 0xB0 + b
        if lockseq:
            for b in range(8):
                banks[b][0x3000] = 0xB0 + b              # tag in every bank (bank 2: the byte at 0xB000, bank 5: at 0x7000)
            if lrng.random() < 0.15:
                st['out7ffd'] = o7 | 0x20                # the snapshot itself holds a locked machine
        st['ram'] = [bytes(b) for b in banks]
        frame = 70908
    else:
        st['machine'] = '48K'
        st['out7ffd'] = 0
        st['ram'] = bytes(img[0x4000:])
        frame = 69888
    cls = rng.choices(['tiny', 'small', 'medium', 'real'], [0.3, 0.35, 0.25, 0.1 if allow_real else 0])[0]
    if cls == 'tiny':
        flen, nf = rng.randint(4, 40), rng.randint(5, 40)
    elif cls == 'small':
        flen, nf = rng.randint(40, 400), rng.randint(4, 40)
    elif cls == 'medium':
        flen, nf = rng.randint(400, 4000), rng.randint(3, 20)
    else:
        flen, nf = frame, rng.randint(2, 6)
    jitter = 0 if cls == 'real' or rng.random() < 0.5 else rng.randint(1, max(1, flen))
    st['tstates'] = rng.randrange(flen) if rng.random() < 0.7 else rng.randrange(frame)
    meta = {'lockseq': bool(lockseq), 'kind': kind, 'is128': is128, 'org': org, 'code_len': len(code), 'flen_class': cls, 'flen': flen, 'jitter': jitter, 'frames': nf,
            'inputs': rng.choice(['const', 'const', 'const', 'hash', 'hash', 'counter', 'keys']), 'in_seed': rng.randrange(1 << 30)}
    return st, meta

def input_fn(meta):
    """Deterministic port-input source: value as a function of (mode, seed, number of reads so far, port)."""
    mode, seed = meta['inputs'], meta['in_seed']
    n = [0]
    const = (0xFF, 0xBF, 0x1F, 0x00)[seed & 3]
    def f(port):
        k = n[0]
        n[0] += 1
        if mode == 'const':
            return const
        if mode == 'counter':
            return k & 0xFF
        if mode == 'keys':
            return 0xBF if (port & 0xFF) == 0xFE and (k // 16) % 3 else 0xFF
        return ((seed * 2654435761 + k * 40503 + port * 7) >> 3) & 0xFF
    return f
