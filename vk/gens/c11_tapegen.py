"""G-TAPE for C11: abstract tapes (TZX-shaped element lists, PZX-native block lists, TAP block lists) biased towards
boundaries: empty and one-byte blocks, every flag byte, used bits 1..8, pulse widths 0/1/0x7FFF/0x8000/0xFFFF,
pilot counts 0/1/odd/even, pauses 0, PZX multi-word durations and repeat counts, explicit initial levels.

All randomness comes from the rng passed in. Does not import skoolkit.
"""
from vk.ref import c11_tapemodel as tm

WIDTHS = [1, 2, 3, 100, 500, 667, 735, 855, 1710, 2168, 0x7FFF, 0x8000, 0xFFFF]
FLAGS = [0, 255, 1, 127, 128, 254]

def width(rng, zero=0.05):
    x = rng.random()
    if x < zero:
        return 0
    if x < 0.35:
        return rng.choice(WIDTHS)
    return rng.randrange(1, 4000)

def two_widths(rng, zero=0.05):
    """zero/one bit pulse widths: usually different (decodable), sometimes equal, sometimes 0."""
    a = width(rng, zero)
    x = rng.random()
    if x < 0.04:
        return a, a
    b = width(rng, zero)
    if x < 0.5 and a == b:
        b = a + 1 + rng.randrange(1000)
        if b > 0xFFFF:
            b = a - 1 - rng.randrange(1000)
    return a, b

def length(rng, cls):
    x = rng.random()
    if cls == 'big':
        return rng.choice([16384, 32768, 49152, 65535, rng.randrange(3000, 65536)])
    if x < 0.05:
        return 0
    if x < 0.20:
        return 1
    if x < 0.70:
        return rng.randrange(2, 21)
    if x < 0.93 or cls == 'small':
        return rng.randrange(21, 300)
    return rng.randrange(300, 3000)

def data_bytes(rng, n, flag=None):
    if n == 0:
        return b''
    style = rng.random()
    if style < 0.6:
        body = rng.randbytes(n)
    elif style < 0.75:
        body = bytes([rng.choice([0, 255, 0x55, 0xAA, 0x80, 1])]) * n
    else:
        body = bytes((i * 37 + 11) & 255 for i in range(n))
    if flag is None:
        flag = rng.choice(FLAGS) if rng.random() < 0.6 else rng.randrange(256)
    return bytes([flag]) + body[1:]

def pilot_len(rng):
    x = rng.random()
    if x < 0.08:
        return 0
    if x < 0.45:
        return rng.choice([1, 2, 3, 4, 5])
    if x < 0.9:
        return rng.randrange(0, 60)
    if x < 0.97:
        return rng.choice([3223, 8063, 0x7FFF, 0x8000])
    return 65535

def pause_ms(rng):
    x = rng.random()
    if x < 0.3:
        return 0
    if x < 0.5:
        return 1
    if x < 0.9:
        return rng.randrange(2, 3000)
    return 65535

TEXTS = [b'', b'A', b'Loading...', b'Side 1', b'tape \x7f test', b'x' * 40]

def info_element(rng, allow_stop48):
    v = rng.choice(['group', 'groupend', 'text', 'message', 'archive', 'hardware', 'custom', 'glue'] + (['stop48'] if allow_stop48 else [])
                   + ['jump', 'call', 'return', 'select', 'emulation', 'snapshot'])
    e = {'k': 'info', 'v': v, 'text': rng.choice(TEXTS)}
    if v == 'jump':
        e['n'] = rng.choice([1, 2, -1, 5])
    elif v == 'call':
        e['offsets'] = [rng.choice([1, 2, -1, 3]) for _ in range(rng.choice([0, 1, 2, 3, 7]))]
    elif v == 'select':
        e['items'] = [(rng.choice([1, 2, 3]), rng.choice([t for t in TEXTS if len(t) < 31] or [b'x'])[:30]) for _ in range(rng.choice([0, 1, 2, 4]))]
    elif v == 'emulation':
        e['raw8'] = rng.randbytes(8)
    elif v == 'snapshot':
        e['type'] = rng.choice([0, 1])
        e['blob'] = rng.randbytes(rng.choice([0, 1, 27, 300]))
    if v == 'archive':
        e['items'] = [(rng.choice([0, 1, 2, 3, 4, 8, 255]), rng.choice(TEXTS)) for _ in range(rng.randrange(0, 4))]
    elif v == 'hardware':
        e['items'] = [(rng.randrange(0, 17), rng.randrange(0, 4), rng.randrange(0, 4)) for _ in range(rng.randrange(0, 3))]
    elif v == 'custom':
        e['ident'] = (b'C11 custom info ' * 2)[:16]
        e['text'] = rng.choice([t for t in TEXTS if all(32 <= c < 127 for c in t)])
    return e

def timing_element(rng, cls, kinds=None, allow_stop=True):
    k = rng.choice(kinds or ['std', 'std', 'turbo', 'turbo', 'turbo', 'tone', 'pulses', 'pure', 'pure', 'pause', 'direct'])
    if k == 'std':
        return {'k': 'std', 'data': data_bytes(rng, length(rng, cls)), 'pause': pause_ms(rng) if rng.random() < 0.6 else 1000}
    if k == 'turbo':
        z, o = two_widths(rng)
        return {'k': 'turbo', 'pilot': width(rng), 'sync1': width(rng), 'sync2': width(rng), 'zero': z, 'one': o, 'pilot_len': pilot_len(rng),
                'used': rng.randrange(1, 9), 'pause': pause_ms(rng), 'data': data_bytes(rng, length(rng, cls))}
    if k == 'tone':
        return {'k': 'tone', 'plen': width(rng), 'count': pilot_len(rng)}
    if k == 'pulses':
        n = rng.choice([0, 1, 2, 3, 5, 8, 20, 255]) if rng.random() < 0.8 else rng.randrange(0, 256)
        return {'k': 'pulses', 'lens': [width(rng, 0.08) for _ in range(n)]}
    if k == 'pure':
        z, o = two_widths(rng)
        return {'k': 'pure', 'zero': z, 'one': o, 'used': rng.randrange(1, 9), 'pause': pause_ms(rng), 'data': data_bytes(rng, length(rng, cls))}
    if k == 'pause':
        ms = pause_ms(rng)
        if ms == 0 and not allow_stop:
            ms = 1
        return {'k': 'pause', 'ms': ms}
    if k == 'direct':
        n = rng.choice([1, 1, 2, 3, 8, 40])
        style = rng.random()
        if style < 0.5:
            samples = rng.randbytes(n)
        elif style < 0.75:
            samples = bytes(rng.choice([0x00, 0xFF, 0xF0, 0x0F]) for _ in range(n))
        else:
            samples = bytes([rng.choice([0x80, 0x7F, 0xFF, 0x00])]) + rng.randbytes(n - 1)
        return {'k': 'direct', 'tps': rng.choice([1, 79, 158, 0x7FFF, 0xFFFF, rng.randrange(1, 2000)]), 'pause': pause_ms(rng), 'used': rng.randrange(1, 9),
                'samples': samples}
    raise ValueError(k)

def gen_tzx(rng, cls='small', loops=True, allow_stop=True, kinds=None):
    """-> list of abstract elements."""
    n = rng.choice([1, 1, 2, 2, 3, 3, 4, 5, 8])
    out = []
    big_done = False
    for _ in range(n):
        if loops and rng.random() < 0.12:
            body = []
            for _ in range(rng.choice([1, 1, 2, 3])):
                body.append(timing_element(rng, 'small', kinds, allow_stop=False))
                if rng.random() < 0.2:
                    body.append(info_element(rng, False))
            out.append({'k': 'loop', 'reps': rng.choice([1, 2, 2, 3, 5]), 'body': body})
        else:
            c = cls
            if cls == 'big':
                c = 'small' if big_done else 'big'
            e = timing_element(rng, c, kinds, allow_stop)
            if c == 'big' and 'data' in e:
                big_done = True
            out.append(e)
        if rng.random() < 0.2:
            out.append(info_element(rng, allow_stop))
    if rng.random() < 0.15:
        out.insert(0, info_element(rng, False))
    return out

def has_loop(elements):
    return any(e['k'] == 'loop' for e in elements)

# ------------------------------------------------------------------ TAP

def gen_tap(rng, cls='small'):
    n = rng.choice([1, 1, 2, 2, 3, 4, 6])
    blocks = []
    big_done = False
    for _ in range(n):
        c = cls
        if cls == 'big':
            c = 'small' if big_done else 'big'
            big_done = True
        blocks.append(data_bytes(rng, length(rng, c)))
    return blocks

def std_elements(blocks):
    """The TZX elements that say what a TAP file says."""
    return [{'k': 'std', 'data': b, 'pause': 1000} for b in blocks]

# ------------------------------------------------------------------ PZX native

def _dur(rng):
    x = rng.random()
    if x < 0.05:
        return 0
    if x < 0.75:
        return width(rng, 0)
    if x < 0.9:
        return rng.choice([0x7FFF, 0x8000, 0x8001, 0xFFFF, 0x10000, 0x10001, 0x12345, 3500000])
    return rng.randrange(0x8000, 0x7FFFFFFF) if rng.random() < 0.3 else rng.randrange(0x8000, 0x200000)

def _count(rng):
    x = rng.random()
    if x < 0.5:
        return 1
    if x < 0.9:
        return rng.randrange(2, 40)
    return rng.choice([3223, 8063, 0x7FFF])

def bit_sequences(rng):
    """-> (s0, s1, kind)"""
    x = rng.random()
    if x < 0.2:
        return (855, 855), (1710, 1710), 'rom'
    if x < 0.45:
        a, b = two_widths(rng, 0)
        return (a, a), (b, b), 'pair'
    if x < 0.6:
        n0, n1 = rng.randrange(1, 5), rng.randrange(1, 5)
        return tuple(width(rng, 0) for _ in range(n0)), tuple(width(rng, 0) for _ in range(n1)), 'free'
    if x < 0.7:
        a, b = two_widths(rng, 0)
        return (a,), (b,), 'single'
    if x < 0.8:
        t = rng.randrange(1, 500)
        return (t, 0), (0, t), 'samples'
    if x < 0.92:
        n0, n1 = rng.randrange(1, 4), rng.randrange(1, 4)
        return tuple(width(rng, 0.3) for _ in range(n0)), tuple(width(rng, 0.3) for _ in range(n1)), 'zeros'
    if x < 0.96:
        return (), (width(rng, 0),), 'empty0'
    return (width(rng, 0), width(rng, 0)), (), 'empty1'

def gen_pzx(rng, cls='small', levels=None, allow_stop=True):
    """-> list of PZX block tuples. levels: 'follow' (each block starts at the running level), 'usual' (PULS low, DATA high
    after a ROM-style pilot) or 'random'."""
    levels = levels or rng.choice(['follow', 'follow', 'usual', 'random'])
    blocks = [('PZXT', 1, 0, rng.choice([[], [b'Title'], [b'Title', b'Publisher', b'ACME', b'Year', b'1984'], [b'', b'Comment', b'x']]))]
    r = 0       # parity of pulses played so far (only meaningful for 'follow')
    n = rng.choice([1, 2, 2, 3, 3, 4, 5, 8])
    big_done = False
    for _ in range(n):
        k = rng.choice(['PULS', 'PULS', 'DATA', 'DATA', 'DATA', 'PAUS', 'ROM', 'OTHER'])
        if k == 'ROM':
            d = data_bytes(rng, max(1, length(rng, 'small')))
            lv = r if levels == 'follow' else (0 if levels == 'usual' else rng.randrange(2))
            pil = 8063 if d[0] == 0 else 3223
            blocks.append(_puls_block(rng, lv, [(pil, 2168), (1, 667), (1, 735)]))
            r = lv ^ 1
            lv = r if levels == 'follow' else (1 if levels == 'usual' else rng.randrange(2))
            tail = rng.choice([945, 945, 0, 1])
            blocks.append(('DATA', lv, 8 * len(d), tail, (855, 855), (1710, 1710), d))
            r = lv ^ (1 if tail else 0)
        elif k == 'PULS':
            np_ = rng.choice([1, 1, 2, 3, 5, 12])
            pl = []
            for _ in range(np_):
                c = _count(rng)
                d = _dur(rng)
                if c * d > 40000000 or (c > 100 and d > 0x8000):
                    c = 1
                pl.append((c, d))
            lv = r if levels == 'follow' else (0 if levels == 'usual' and rng.random() < 0.8 else rng.randrange(2))
            b = _puls_block(rng, lv, pl)
            blocks.append(b)
            # what a reader of the block sees: a leading odd-count zero pulse means "high" and is not played
            ent = [(c, d) for c, d, _, _ in b[1]]
            lv2 = 0
            if ent and ent[0][1] == 0 and ent[0][0] % 2:
                lv2 = 1
                ent = ent[1:]
            if ent:
                r = lv2 ^ (sum(c for c, d in ent) & 1)
        elif k == 'DATA':
            s0, s1, sk = bit_sequences(rng)
            c = cls
            if cls == 'big':
                c = 'small' if big_done else 'big'
                big_done = True
            nbytes = length(rng, c)
            used = rng.randrange(1, 9)
            nbits = 8 * (nbytes - 1) + used if nbytes else 0
            d = data_bytes(rng, nbytes)
            tail = rng.choice([0, 0, 945, 1, 0xFFFF, rng.randrange(1, 3000)])
            lv = r if levels == 'follow' else rng.randrange(2)
            blocks.append(('DATA', lv, nbits, tail, s0, s1, d))
            if nbytes:
                bits = tm.data_bits(d, used)
                ones = sum(bits)
                r = lv ^ ((ones * len(s1) + (len(bits) - ones) * len(s0) + (1 if tail else 0)) & 1)
        elif k == 'PAUS':
            lv = r if levels == 'follow' else (0 if levels == 'usual' else rng.randrange(2))
            dur = rng.choice([0, 1, 3500, 3500000, 0x7FFFFFFF, rng.randrange(1, 10000000)])
            blocks.append(('PAUS', lv, dur))
            if dur and levels != 'follow':
                r = lv
        else:
            x = rng.random()
            if x < 0.4:
                blocks.append(('BRWS', rng.choice([b'Level 1', b'', b'Side B'])))
            elif x < 0.6 and allow_stop:
                blocks.append(('STOP', rng.choice([0, 1])))
            else:
                blocks.append(('RAW', rng.choice([b'ZZZZ', b'CSW\x00', b'abcd']), rng.randbytes(rng.randrange(0, 12))))
    return blocks, levels

def _puls_block(rng, level, pulses):
    b = tm._puls(level, pulses, rng)
    if b is None:
        return ('PULS', [])
    return b

# ------------------------------------------------------------------ options

def selection(rng, nblocks):
    """--tape-start / --tape-stop / --tape-skip values for a tape with nblocks numbered blocks. skip is None, (a,) or (a, b)."""
    start, stop, skip = 1, 0, None
    if rng.random() < 0.35:
        start = rng.randrange(1, nblocks + 2)
    if rng.random() < 0.35:
        stop = rng.randrange(1, nblocks + 3)
    x = rng.random()
    if x < 0.2:
        skip = (rng.randrange(1, nblocks + 2),)
    elif x < 0.35:
        a = rng.randrange(1, nblocks + 1)
        skip = (a, rng.randrange(a, nblocks + 2))
    return start, stop, skip

def skip_set(skip):
    if skip is None:
        return ()
    if len(skip) == 1:
        return (skip[0],)
    return tuple(range(skip[0], skip[1] + 1))

def skip_arg(skip):
    return '%d' % skip if len(skip) == 1 else '%d-%d' % skip

def first_edge(rng):
    x = rng.random()
    if x < 0.5:
        return 0
    if x < 0.8:
        return rng.choice([1, 2168, 3500, 69888])
    return rng.randrange(0, 5000000)
