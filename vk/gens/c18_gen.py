"""C18 workload: abstract annotated disassembly documents and two concrete renderings of each.

A document is a JSON-able dict (so that a violating case can be replayed from the evidence alone):

  {'org': int, 'entries': [entry, ...]}
  entry = {'ctl': 'c', 'addr': int, 'title': str, 'desc': [par, ...], 'regs': [[prefix, delims, name, text], ...],
           'groups': [{'kind': 'C'|'B'|'T'|'W'|'S', 'sub': int, 'mid': [par, ...], 'instrs': [[addr, op, hexbytes], ...],
                       'comment': str}, ...], 'end': [par, ...]}
  par   = [part, ...];  part = ['t', text] | ['l', flag, [item, ...]] | ['g', flag, [wrapcol, ...], nheader, [[cell, ...], ...]]

Renderings:
  to_skool(doc, rng) - a skool file written with wrap points, comment columns and brace encoding chosen here (by the documented
                       skool-file rules), the input of skool2asm / skool2html;
  to_ctl(doc)        - a control file plus to_image(doc), the input of sna2skool.

Nothing here imports skoolkit.
"""

VOCAB = ['the', 'sprite', 'buffer', 'HL', 'points', 'at', 'x-coordinate', 'loop', 'counter', 'is', 'decremented', 'jump', 'if',
         'zero', 'A=0', '(carry', 'set)', 'table', 'of', 'addresses;', 'see', 'below.', 'Note:', 'self-modifying', 'code', '100%',
         'a', 'I', 'and/or', "player's", 'score', 'end-of-data', 'marker', '$FF', '0x1F', 'bit', '7', 'semi;colon',
         'question?', 'exclaim!', 'UDG', 'attribute', 'byte', 'INK', 'PAPER', 'e.g.', 'etc.', 'x', 'y', 'z', 'to', 'in', 'it',
         'This', 'routine', 'prints', 'character', 'screen', 'address', 'returns', 'with', 'flag', 'reset', 'unless', 'overflow']
PUNCT = [',', ';', ':', '!', '?', '(', ')', '-', '--', '->', '=', '/', '*', '&', '<', '>', '"', "'", '%', '$', '@', '\\', '^', '~',
         '`', '_', '[', ']', '#', '..', '...', 'a|b', '&amp;', '<b>', '"quoted"', "it's", '#1', '(#)', '*)', ';;', '.x', 'x.', '=h']
LETTERS = 'abcdefghijklmnopqrstuvwxyzABCDEFGHIJKLMNOPQRSTUVWXYZ0123456789'
INNER = '.,:;=/_-\'"()!?&<>$%@~'

def _rand_word(rng, n):
    cs = []
    for i in range(n):
        if 0 < i < n - 1 and rng.random() < 0.08:
            cs.append(rng.choice(INNER))
        else:
            cs.append(rng.choice(LETTERS))
    return ''.join(cs)

def word(rng, width):
    """One word (no white space, no braces, no '#'+capital, never starting with '|' or '+')."""
    r = rng.random()
    if r < 0.50:
        return rng.choice(VOCAB)
    if r < 0.60:
        return rng.choice(PUNCT)
    if r < 0.80:
        return _rand_word(rng, rng.randint(1, 14))
    if r < 0.87:
        parts = [_rand_word(rng, rng.randint(1, 9)) for _ in range(rng.randint(2, 6))]
        return '-'.join(parts)
    if r < 0.94:
        return _rand_word(rng, rng.randint(15, max(16, width // 2)))
    # words about as long as a whole line / a comment column, and longer
    return _rand_word(rng, max(1, rng.choice([width - 40, width - 36, width - 30, width - 28, width - 27, width - 26, width - 12, width - 4,
                                              width - 3, width - 2, width - 1, width, width + 1, width + 9, rng.randint(20, width + 30)])))

def words(rng, width, lo, hi):
    return [word(rng, width) for _ in range(rng.randint(lo, hi))]

def fill_exact(rng, target):
    """Words whose single-space join is exactly `target` characters long (a comment that exactly fills a line)."""
    out = []
    left = target
    while left > 0:
        if left <= 3:
            n = left
        else:
            n = min(left, rng.randint(1, 9))
            if left - n == 1:      # would leave room for a separator only
                n = left
        out.append(_rand_word(rng, n))
        left -= n + 1
    return out

def plain_text(rng, width, lo, hi, exact=None):
    ws = words(rng, width, lo, hi)
    if exact and rng.random() < 0.5:
        # make the text fill one column exactly (or miss by one) before carrying on
        ws = fill_exact(rng, max(1, exact + rng.choice([-1, 0, 0, 0, 1]))) + (ws if rng.random() < 0.7 else [])
    if not ws:
        return ''
    s = ' '.join(ws)
    if set(s) <= set('. '):
        s = 'x ' + s
    return s

# ---------------------------------------------------------------- braces in instruction comments

def brace_variant(rng, text, level):
    """Put braces into an instruction comment. level 1: only shapes whose running balance never goes negative and that do not
    start or end with a brace; level 2: every position."""
    ws = text.split(' ') if text else []
    r = rng.random()
    if not ws:
        return text, 'none'
    if level == 1:
        if len(ws) >= 3:
            i = rng.randrange(1, len(ws) - 1)
            j = rng.randrange(i, len(ws) - 1)
            if r < 0.4:
                ws[i] = '{' + ws[i]
                ws[j] = ws[j] + '}'
                return ' '.join(ws), 'interior-balanced'
            if r < 0.6:
                ws[i] = '{' + ws[i]
                return ' '.join(ws), 'interior-open'
            if r < 0.8:
                ws[i] = '{{' + ws[i] + '}'
                return ' '.join(ws), 'interior-open'
            ws.insert(i, '{')
            ws.insert(j + 2, '}')
            return ' '.join(ws), 'interior-balanced'
        return text, 'none'
    shapes = ['start', 'start2', 'end', 'end2', 'both', 'both-unbalanced', 'interior-close', 'close-then-open', 'token-start', 'token-end',
              'only-braces', 'interior-balanced', 'interior-open']
    sh = rng.choice(shapes)
    if sh == 'start':
        ws[0] = '{' + ws[0]
    elif sh == 'start2':
        ws[0] = '{{' + ws[0]
    elif sh == 'end':
        ws[-1] = ws[-1] + '}'
    elif sh == 'end2':
        ws[-1] = ws[-1] + '}}'
    elif sh == 'both':
        ws[0] = '{' + ws[0]
        ws[-1] = ws[-1] + '}'
    elif sh == 'both-unbalanced':
        ws[0] = '{' * rng.randint(1, 3) + ws[0]
        ws[-1] = ws[-1] + '}' * rng.randint(1, 3)
    elif sh == 'interior-close':
        i = rng.randrange(len(ws))
        ws[i] = ws[i] + '}'
    elif sh == 'close-then-open':
        i = rng.randrange(len(ws))
        j = rng.randrange(i, len(ws))
        ws[i] = ws[i] + '}'
        ws[j] = '{' + ws[j]
    elif sh == 'token-start':
        ws.insert(0, '{')
    elif sh == 'token-end':
        ws.append('}')
    elif sh == 'only-braces':
        ws = [rng.choice(['{', '}', '{}', '}{', '{{', '}}', '{ }'])]
    elif sh == 'interior-balanced':
        i = rng.randrange(len(ws))
        ws[i] = '{' + ws[i] + '}'
    elif sh == 'interior-open':
        i = rng.randrange(len(ws))
        ws[i] = '{' + ws[i]
    return ' '.join(ws), sh

# ---------------------------------------------------------------- paragraphs with #LIST / #TABLE

FLAGS = ['', '', '<nowrap>', '<wrapalign>']

def _cell_text(rng, width, lo, hi):
    ws = [w for w in words(rng, min(width, 60), lo, hi)]
    ws = [w.replace('|', '!') for w in ws]
    if ws and ws[0].startswith('='):
        ws[0] = 'x' + ws[0]
    return ' '.join(ws)

def gen_par(rng, width, blocks=True, lo=1, hi=30, exact=None):
    parts = []
    r = rng.random()
    if not blocks or r < 0.82:
        return [['t', plain_text(rng, width, max(lo, 1), hi, exact)]]
    if rng.random() < 0.7:
        parts.append(['t', plain_text(rng, width, 1, 10)])
    if r < 0.91:
        items = [_cell_text(rng, width, 1, 14) for _ in range(rng.randint(1, 4))]
        parts.append(['l', rng.choice(FLAGS), items])
    else:
        ncols = rng.randint(1, 4)
        nhead = rng.choice([0, 1, 1])
        nrows = nhead + rng.randint(1, 3)
        wrapcols = [1 if rng.random() < 0.4 else 0 for _ in range(ncols)]
        rows = [[_cell_text(rng, width, 1, 3 if r < nhead else rng.choice([2, 4, 12])) for _ in range(ncols)] for r in range(nrows)]
        parts.append(['g', rng.choice(FLAGS), wrapcols, nhead, rows])
    if rng.random() < 0.5:
        parts.append(['t', plain_text(rng, width, 1, 10)])
    return parts

def part_source(part):
    """The macro text of one part, as it is written in a skool or control file."""
    if part[0] == 't':
        return part[1]
    if part[0] == 'l':
        return '#LIST%s %s LIST#' % (part[1], ' '.join('{ %s }' % it for it in part[2]))
    flag, wrapcols, nhead, rows = part[1:]
    classes = 'default' + ''.join(',:w' if w else ',' for w in wrapcols)
    rtxt = []
    for i, row in enumerate(rows):
        rtxt.append('{ %s }' % ' | '.join(('=h ' + c) if i < nhead else c for c in row))
    return '#TABLE(%s)%s %s TABLE#' % (classes, flag, ' '.join(rtxt))

def par_source(par):
    return ' '.join(p for p in (part_source(q) for q in par) if p)

def par_source_lines(par):
    """Source lines of a paragraph for a skool file: text parts are left to the caller's wrapper (returned as ('t', text)),
    block parts are returned as ('b', [lines]) with one row/item per line."""
    out = []
    for part in par:
        if part[0] == 't':
            if part[1]:
                out.append(('t', part[1]))
        elif part[0] == 'l':
            out.append(('b', ['#LIST' + part[1]] + ['{ %s }' % it for it in part[2]] + ['LIST#']))
        else:
            src = part_source(part)
            head, rest = src.split(' ', 1)
            rows = rest[:-len(' TABLE#')]
            lines = [head]
            for r in rows.split(' } { '):
                r = r.strip()
                if not r.startswith('{ '):
                    r = '{ ' + r
                if not r.endswith(' }'):
                    r = r + ' }'
                lines.append(r)
            lines.append('TABLE#')
            out.append(('b', lines))
    return out

# ---------------------------------------------------------------- instructions

CODE = [
    ([0x00], 'NOP'), ([0xAF], 'XOR A'), ([0xC9], 'RET'), ([0x3C], 'INC A'), ([0xED, 0xB0], 'LDIR'), ([0xCB, 0x47], 'BIT 0,A'),
    ([0xD3, 0xFE], 'OUT (254),A'), ([0xE5], 'PUSH HL'), ([0x08], "EX AF,AF'"), ([0xE3], 'EX (SP),HL'), ([0xED, 0x44], 'NEG'),
]

def gen_code(rng):
    r = rng.random()
    if r < 0.45:
        b, op = rng.choice(CODE)
        return list(b), op
    n = rng.randrange(256)
    nn = rng.randint(1000, 9999)
    d = rng.randint(1, 127)
    lo, hi = nn & 255, nn >> 8
    return rng.choice([
        ([0x3E, n], 'LD A,%d' % n),
        ([0x06, n], 'LD B,%d' % n),
        ([0x21, lo, hi], 'LD HL,%d' % nn),
        ([0x32, lo, hi], 'LD (%d),A' % nn),
        ([0xDD, 0x36, d, n], 'LD (IX+%d),%d' % (d, n)),
        ([0xFD, 0xCB, d, 0xC6], 'SET 0,(IY+%d)' % d),
        ([0xED, 0x5B, lo, hi], 'LD DE,(%d)' % nn),
        ([0xDD, 0x21, lo, hi], 'LD IX,%d' % nn),
    ])

TEXTCHARS = 'ABCDEFGHIJKLMNOPQRSTUVWXYZabcdefghijklmnopqrstuvwxyz0123456789 .,;!-  '

def gen_group_instrs(rng, addr, n, long_ops):
    """n statements of one sub-block type starting at addr -> (kind, sub, [[addr, op, hex], ...], next address)."""
    kind = rng.choice('CCCCBBTWS')
    instrs = []
    sub = 0
    if kind == 'C':
        for _ in range(n):
            b, op = gen_code(rng)
            instrs.append([addr, op, bytes(b).hex()])
            addr += len(b)
    elif kind == 'B':
        sub = rng.choice([8, 12, 16, 20]) if long_ops else rng.choice([1, 1, 2, 3, 8])
        for _ in range(n):
            b = [rng.choice([0, 1, 9, 10, 99, 100, 255, rng.randrange(256)]) for _ in range(sub)]
            if all(32 <= x < 127 for x in b):
                b[0] = 0        # (kept numeric on purpose: a B sub-block renders characters as numbers anyway)
            instrs.append([addr, 'DEFB ' + ','.join(str(x) for x in b), bytes(b).hex()])
            addr += sub
    elif kind == 'T':
        sub = rng.choice([24, 36, 50, 64]) if long_ops else rng.choice([1, 2, 5, 9, 14])
        for _ in range(n):
            s = ''.join(rng.choice(TEXTCHARS) for _ in range(sub))
            instrs.append([addr, 'DEFM "%s"' % s, s.encode('ascii').hex()])
            addr += sub
    elif kind == 'W':
        sub = rng.choice([8, 12]) if long_ops else rng.choice([2, 2, 4])
        for _ in range(n):
            vals = [rng.choice([0, 1, 255, 256, 9999, 10000, 65535, rng.randrange(65536)]) for _ in range(sub // 2)]
            b = []
            for v in vals:
                b += [v & 255, v >> 8]
            instrs.append([addr, 'DEFW ' + ','.join(str(v) for v in vals), bytes(b).hex()])
            addr += sub
    else:
        sub = rng.choice([1, 2, 7, 100, 256])
        for _ in range(n):
            instrs.append([addr, 'DEFS %d' % sub, bytes(sub).hex()])
            addr += sub
    return kind, sub, instrs, addr

# ---------------------------------------------------------------- registers

REG_PLAIN = ['A', 'B', 'C', 'HL', 'DE', 'BC', 'IX', 'F', "HL'", 'SP', 'A,B', 'IY+5', '23296', 'hl']
REG_DELIM = ['B, C', 'HL and DE', 'the stack', '(HL)', 'x', 'IX+0 to IX+5']
PREFIXES = ['Input', 'Output', 'I', 'O', 'In', 'Out', 'i', 'o', 'Entry', 'Exit']
DELIMS = [('(', ')'), ('[', ']'), ('{', '}'), ('/', '/'), ('|', '|'), ('!', '!')]

def gen_regs(rng, width):
    n = rng.choice([0, 0, 1, 2, 3, 5])
    regs = []
    for i in range(n):
        prefix = rng.choice(PREFIXES) if rng.random() < (0.6 if i == 0 else 0.25) else ''
        if rng.random() < 0.25:
            delims = list(rng.choice(DELIMS))
            name = rng.choice(REG_DELIM)
            if delims[0] == '(' and '(' in name:
                delims = ['[', ']']
        else:
            delims = ['', '']
            name = rng.choice(REG_PLAIN)
        text = plain_text(rng, width, 0 if rng.random() < 0.1 else 1, 25, exact=width - 2 - len(name) - 1 - (len(prefix) + 1 if prefix else 0))
        regs.append([prefix, delims, name, text])
    return regs

def reg_source(reg):
    """'prefix:name text' as written on an R directive / the first register line of a skool file."""
    prefix, delims, name, text = reg
    field = (prefix + ':' if prefix else '') + name
    if delims[0]:
        field = delims[0] + field + delims[1]
    return field, text

# ---------------------------------------------------------------- documents

def gen_doc(rng, width, brace_level=2, blocks=True, max_entries=3):
    """A document that fits below 64K (a large one generated at a high origin is generated again at a low one)."""
    doc = _gen_doc(rng, width, brace_level, blocks, max_entries)
    while doc['end'] > 65536:
        doc = _gen_doc(rng, width, brace_level, blocks, max_entries, org=rng.choice([16384, 23296, 24576, 30000]))
    return doc

def _gen_doc(rng, width, brace_level=2, blocks=True, max_entries=3, org=None):
    """width: the line width the case will be converted at (used only to aim word lengths at the interesting boundaries)."""
    if org is None:
        org = rng.choice([16384, 23296, 24576, 30000, 32768, 40000, 49152, 60000, rng.randint(10000, 60000)])
    addr = org
    entries = []
    cw = max(10, width - 28)       # a typical instruction-comment column
    for ei in range(rng.randint(1, max_entries)):
        e = {'ctl': rng.choice('cccbbtwgu'), 'addr': addr}
        e['title'] = plain_text(rng, width, 1, 12, exact=width - 2)
        e['desc'] = [gen_par(rng, width, blocks, exact=width - 2) for _ in range(rng.choice([0, 0, 1, 1, 2, 3]))]
        e['regs'] = gen_regs(rng, width)
        groups = []
        for gi in range(rng.randint(1, 5)):
            n = rng.choice([1, 1, 1, 1, 2, 2, 2, 3, 3, 4, 5, 6, 7, 8, 9, 10, 12])
            kind, sub, instrs, addr = gen_group_instrs(rng, addr, n, rng.random() < 0.3)
            r = rng.random()
            cpar = None
            shape = 'none'
            if r < 0.12:
                comment = ''
            else:
                hi = rng.choice([3, 8, 15, 40, 80])
                comment = plain_text(rng, width, 1, hi, exact=rng.choice([cw, cw, width - 3 - 2 - max(23, max(len(i[1]) for i in instrs))]))
                if blocks and rng.random() < 0.04:
                    cpar = [p for p in gen_par(rng, width, True, 1, 8) + [['l', '', ['x y', 'z']]] if p[0] != 't' or p[1]]
                    comment = par_source(cpar)
                elif brace_level and rng.random() < 0.3:
                    comment, shape = brace_variant(rng, comment, brace_level)
            if not comment and n > 1:
                # an uncommented run of statements is n separate instructions, not a group
                for ins in instrs:
                    groups.append({'kind': kind, 'sub': sub, 'mid': [], 'instrs': [ins], 'comment': '', 'split': 1})
                groups[-n]['split'] = n
                first = groups[-n]
            else:
                groups.append({'kind': kind, 'sub': sub, 'mid': [], 'instrs': instrs, 'comment': comment, 'split': 0})
                first = groups[-1]
                if comment and cpar:
                    first['cpar'] = cpar
                    shape = 'list/table markup'
                first['braces'] = shape
            if rng.random() < 0.4:
                first['mid'] = [gen_par(rng, width, blocks, exact=width - 2) for _ in range(rng.choice([1, 1, 2]))]
        e['groups'] = groups
        e['end'] = [gen_par(rng, width, blocks, exact=width - 2) for _ in range(rng.choice([0, 0, 0, 1, 1, 2]))]
        entries.append(e)
    return {'org': org, 'end': addr, 'entries': entries}

def to_image(doc):
    out = bytearray()
    for e in doc['entries']:
        for g in e['groups']:
            for a, op, hx in g['instrs']:
                assert a == doc['org'] + len(out)
                out += bytes.fromhex(hx)
    return bytes(out)

# ---------------------------------------------------------------- control file

def to_ctl(doc):
    lines = ['@ %d start' % doc['org']]
    for e in doc['entries']:
        a0 = e['addr']
        lines.append('%s %d %s' % (e['ctl'], a0, e['title']))
        for par in e['desc']:
            lines.append('D %d %s' % (a0, par_source(par)))
        for reg in e['regs']:
            field, text = reg_source(reg)
            lines.append(('R %d %s %s' % (a0, field, text)).rstrip())
        i = 0
        groups = e['groups']
        while i < len(groups):
            g = groups[i]
            ga = g['instrs'][0][0]
            for par in g['mid']:
                lines.append('N %d %s' % (ga, par_source(par)))
            run = g['split'] or 1
            members = groups[i:i + run]
            total = sum(len(bytes.fromhex(ins[2])) for m in members for ins in m['instrs'])
            spec = '%s %d,%d' % (g['kind'], ga, total)
            if g['kind'] != 'C':
                spec += ',%d' % g['sub']
            lines.append((spec + ' ' + g['comment']).rstrip())
            i += run
        for par in e['end']:
            lines.append('E %d %s' % (a0, par_source(par)))
    lines.append('i %d' % doc['end'])
    return '\n'.join(lines) + '\n'

# ---------------------------------------------------------------- skool file (our own writer)

def greedy_wrap(text, width):
    """Plain greedy wrap on white space; words are never split; a line holds at least one word."""
    lines = []
    cur = ''
    for w in text.split():
        if cur and len(cur) + 1 + len(w) > width:
            lines.append(cur)
            cur = w
        else:
            cur = cur + ' ' + w if cur else w
    if cur:
        lines.append(cur)
    return lines

def _ragged_wrap(rng, text, width):
    """Wrap with a different width for every line (the source layout must not matter)."""
    ws = text.split()
    lines = []
    cur = ''
    lim = rng.randint(max(8, width // 3), width)
    for w in ws:
        if cur and len(cur) + 1 + len(w) > lim:
            lines.append(cur)
            cur = w
            lim = rng.randint(max(8, width // 3), width)
        else:
            cur = cur + ' ' + w if cur else w
    if cur:
        lines.append(cur)
    return lines

def _par_lines(rng, par, width):
    lines = []
    for kind, val in par_source_lines(par):
        if kind == 't':
            lines += _ragged_wrap(rng, val, width)
        elif rng.random() < 0.5:
            lines += val
        else:
            lines += _ragged_wrap(rng, ' '.join(val), width)
    return lines

def _pars_lines(rng, pars, width):
    out = []
    for i, par in enumerate(pars):
        if i:
            out.append('.')
        out += _par_lines(rng, par, width)
    return out

def encode_group_comment(lines_per_instr, force_braces):
    """lines_per_instr: for each instruction of the group the list of its comment lines (first line + continuation lines), holding
    the comment text as it must be rendered. Returns the same structure with the opening/closing braces the skool-file rules
    require: the comment ends on the instruction where closing braces catch up with opening braces, adjacent opening braces at the
    start and adjacent closing braces at the end are removed."""
    flat = [l for ls in lines_per_instr for l in ls]
    text = ' '.join(l for l in flat if l)
    if not force_braces and not text.startswith('{'):
        return lines_per_instr
    # running balance per instruction (the unit at which the parser decides where the comment ends)
    bal = []
    run = 0
    for ls in lines_per_instr:
        t = ' '.join(ls)
        run += t.count('{') - t.count('}')
        bal.append(run)
    # k opening braces so that the balance stays positive on every instruction but the last
    k = 1
    for b in bal[:-1]:
        k = max(k, 1 - b)
    c = max(1, k + bal[-1])
    out = [list(ls) for ls in lines_per_instr]
    first = out[0]
    first[0] = '{' * k + (' ' if text.startswith('{') and first[0].startswith('{') else '') + first[0]
    if text.startswith('{') and not first[0][k:].lstrip().startswith('{'):
        # the text starts on a later line: a space-separated brace must not be glued to ours; nothing to do
        pass
    last = out[-1]
    last[-1] = last[-1] + (' ' if last[-1].endswith('}') else '') + '}' * c
    return out

def to_skool(doc, rng):
    """Write the document as a skool file. Layout choices (wrap widths, comment column, where continuation lines go) are random;
    only white space differs from the document."""
    src_width = rng.choice([30, 50, 77, 77, 100, 160])
    out = ['@start']
    for ei, e in enumerate(doc['entries']):
        if ei:
            out.append('')
        hdr = greedy_wrap(e['title'], src_width) if rng.random() < 0.5 else _ragged_wrap(rng, e['title'], src_width)
        start = e['groups'][0]['mid']
        sections = [hdr]
        desc = _pars_lines(rng, e['desc'], src_width)
        regs = []
        if e['regs']:
            fields = [reg_source(r) for r in e['regs']]
            for field, text in fields:
                tl = _ragged_wrap(rng, text, max(10, src_width - len(field))) or ['']
                regs.append((field + ' ' + tl[0]).rstrip())
                for l in tl[1:]:
                    regs.append('.' + ' ' * rng.randint(1, 4) + l)
        startl = _pars_lines(rng, start, src_width)
        if desc or regs or startl:
            sections.append(desc or ['.'])
        if regs or startl:
            sections.append(regs or ['.'])
        if startl:
            sections.append(startl)
        for si, sec in enumerate(sections):
            if si:
                out.append(';')
            out += [('; ' + l).rstrip() for l in sec]
        col = rng.choice([0, 14, 20, 30])
        first_instr = True
        for gi, g in enumerate(e['groups']):
            if gi and g['mid']:
                out += [('; ' + l).rstrip() for l in _pars_lines(rng, g['mid'], src_width)]
            n = len(g['instrs'])
            cl = _ragged_wrap(rng, g['comment'], rng.choice([12, 25, 40, 60, 100]))
            # distribute the comment lines over the instructions
            per = [[] for _ in range(n)]
            if cl:
                if n == 1:
                    per[0] = cl
                else:
                    # each line goes to an instruction index that never decreases; every instruction gets at least an empty line
                    idx = sorted(rng.randrange(n) for _ in cl) if rng.random() < 0.5 else [min(i, n - 1) for i in range(len(cl))]
                    for l, i in zip(cl, idx):
                        per[i].append(l)
            per = [p or [''] for p in per]
            if cl or n > 1:
                per = encode_group_comment(per, n > 1)
            for (a, op, hx), ls in zip(g['instrs'], per):
                ctl = e['ctl'] if first_instr else ' '
                first_instr = False
                head = '%s%05d %s' % (ctl, a, op)
                if ls == [''] and n == 1 and rng.random() < 0.7:
                    out.append(head)
                    continue
                pad = max(len(head) + 1, 7 + col)
                out.append((head.ljust(pad) + '; ' + ls[0]).rstrip())
                for l in ls[1:]:
                    out.append((' ' * pad + '; ' + l).rstrip())
        if e['end']:
            out += [('; ' + l).rstrip() for l in _pars_lines(rng, e['end'], src_width)]
    return '\n'.join(out) + '\n'

def features(doc):
    """Names of the generator features a document exercises (for the evidence histograms)."""
    out = []
    def par(where, p):
        for part in p:
            if part[0] == 'l':
                out.append('%s:#LIST%s' % (where, part[1]))
            elif part[0] == 'g':
                out.append('%s:#TABLE%s%s' % (where, part[1], ':w' if any(part[2]) else ''))
    for e in doc['entries']:
        out.append('description paragraphs:%d' % len(e['desc']))
        for p in e['desc']:
            par('description', p)
        for prefix, delims, name, text in e['regs']:
            out.append('register:%s%s%s' % ('prefix ' if prefix else '', 'delimited ' if delims[0] else '', 'no description' if not text else ''))
        for g in e['groups']:
            for p in g['mid']:
                par('mid-block', p)
            if g.get('cpar'):
                par('instruction comment', g['cpar'])
            if g.get('braces', 'none') != 'none':
                out.append('braces:%s%s' % (g['braces'], ' (group)' if len(g['instrs']) > 1 else ''))
        for p in e['end']:
            par('end comment', p)
    return out
