"""Annotation text generators (words, sentences, comments) shared by C01/C03/C18."""

WORDS = ['the', 'sprite', 'buffer', 'HL', 'points', 'at', 'x-coordinate', 'loop', 'counter', 'is', 'decremented', 'jump', 'if',
         'zero', 'A=0', '(carry', 'set)', 'table', 'of', 'addresses;', 'see', 'below.', 'Note:', 'self-modifying', 'code', '100%',
         'a', 'I', 'and/or', "player's", 'score', '#', '*', '->', 'end-of-data', 'marker', '$FF', '0x1F', 'bit', '7', 'semi;colon',
         'question?', 'exclaim!', 'UDG', 'attribute', 'byte', 'INK', 'PAPER', 'e.g.', 'etc.', '...', '.', '..', 'x', 'y', 'z']

def word(rng):
    if rng.random() < 0.03:
        return ''.join(rng.choice('abcdefghijklmnopqrstuvwxyz') for _ in range(rng.randint(15, 60)))
    return rng.choice(WORDS)

def sentence(rng, lo=1, hi=12):
    n = rng.randint(lo, hi)
    ws = [word(rng) for _ in range(n)]
    s = ' '.join(ws)
    # never only dots (that is paragraph-separator syntax at block level), never leading/trailing blanks
    if set(s) <= set('. '):
        s = 'x ' + s
    return s

def instruction_comment(rng):
    r = rng.random()
    if r < 0.05:
        return '.'          # blank multi-instruction comment syntax
    if r < 0.08:
        return '...'        # dots-only comment (dot-prefixed form)
    s = sentence(rng, 1, 14)
    if rng.random() < 0.1:
        # balanced braces in the interior
        ws = s.split(' ')
        if len(ws) >= 3:
            i = rng.randrange(1, len(ws) - 1)
            ws[i] = '{' + ws[i] + '}'
            s = ' '.join(ws)
    return s

def entry_header_pre(rng, lay, addr, ctl):
    pass

def entry_header_post(rng, lay, addr, ctl):
    pass

def entry_footer(rng, lay, start, end, ctl):
    pass

def subblock_extras(rng, lay, start, end, sctl):
    pass
