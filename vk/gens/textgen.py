"""Annotation text generators (words, sentences, comments) shared by C01/C03/C18."""

WORDS = ['the', 'sprite', 'buffer', 'HL', 'points', 'at', 'x-coordinate', 'loop', 'counter', 'is', 'decremented', 'jump', 'if',
         'zero', 'A=0', '(carry', 'set)', 'table', 'of', 'addresses;', 'see', 'below.', 'Note:', 'self-modifying', 'code', '100%',
         'a', 'I', 'and/or', "player's", 'score', '#', '*', '->', 'end-of-data', 'marker', '$FF', '0x1F', 'bit', '7', 'semi;colon',
         'question?', 'exclaim!', 'UDG', 'attribute', 'byte', 'INK', 'PAPER', 'e.g.', 'etc.', '...', '.', '..', 'x', 'y', 'z']

def word(rng):
    if rng.random() < 0.03:
        return ''.join(rng.choice('abcdefghijklmnopqrstuvwxyz') for _ in range(rng.randint(15, 60)))
    return rng.choice(WORDS)

def sentence(rng, lo=1, hi=12):
    n = rng.randint(lo, hi)
    ws = [word(rng) for _ in range(n)]
    s = ' '.join(ws)
    # never only dots (that is paragraph-separator syntax at block level), never leading/trailing blanks
    if set(s) <= set('. '):
        s = 'x ' + s
    return s

def instruction_comment(rng):
    r = rng.random()
    if r < 0.05:
        return '.'          # blank multi-instruction comment syntax
    if r < 0.08:
        return '...'        # dots-only comment (dot-prefixed form)
    s = sentence(rng, 1, 14)
    if rng.random() < 0.1:
        # balanced braces in the interior
        ws = s.split(' ')
        if len(ws) >= 3:
            i = rng.randrange(1, len(ws) - 1)
            ws[i] = '{' + ws[i] + '}'
            s = ' '.join(ws)
    return s

REGS = ['A', 'B', 'C', 'BC', 'DE', 'HL', 'IX', 'A\'', 'HL\'', 'SP']

def paragraph(rng):
    """Block-level text (D/N/E/R): no word consisting only of dots - wrapping could leave it alone on a line, and a
    line holding only a dot is the paragraph separator in both file syntaxes."""
    ws = [w for w in sentence(rng, 2, 16).split(' ') if set(w) - {'.'}]
    return ' '.join(ws) or 'text'


def _emit(rng, lay, d, addr, text):
    """One D/N/E/R directive, sometimes in the dot-continuation form (line breaks preserved)."""
    L = lay.lines
    if getattr(lay, 'allow_dots', False) and rng.random() < 0.35:
        ws = text.split(' ')
        k = max(1, len(ws) // 2)
        L.append('%s %d' % (d, addr))
        L.append('. ' + ' '.join(ws[:k]))
        if ws[k:]:
            L.append('. ' + ' '.join(ws[k:]))
        lay.features.add('dot-directive')
    else:
        L.append('%s %d %s' % (d, addr, text))

def entry_header_pre(rng, lay, addr, ctl):
    L = lay.lines
    if rng.random() < 0.15:
        for _ in range(rng.randint(1, 2)):
            L.append('> %d ; %s' % (addr, sentence(rng, 1, 8)))
        lay.features.add('header-block')
    if rng.random() < 0.2:
        L.append('@ %d label=L%d' % (addr, addr))
        lay.features.add('asm-label')
    if rng.random() < 0.08:
        L.append('@ %d defb=%d:1,2' % (addr, addr)) if False else None

def entry_header_post(rng, lay, addr, ctl):
    L = lay.lines
    if rng.random() < 0.4:
        if rng.random() < 0.2:
            L.append('@ %d ignoreua:d' % addr)
            lay.features.add('ignoreua:d')
        for _ in range(rng.randint(1, 2)):
            _emit(rng, lay, 'D', addr, paragraph(rng))
        lay.features.add('D')
    if rng.random() < 0.3:
        if rng.random() < 0.2:
            L.append('@ %d ignoreua:r' % addr)
            lay.features.add('ignoreua:r')
        for _ in range(rng.randint(1, 3)):
            reg = rng.choice(REGS)
            pre = rng.choice(['', '', 'I:', 'O:', 'Input:'])
            L.append('R %d %s%s %s' % (addr, pre, reg, paragraph(rng)))
        lay.features.add('R')
    if rng.random() < 0.3:
        if rng.random() < 0.2:
            L.append('@ %d ignoreua:m' % addr)
            lay.features.add('ignoreua:m')
        for _ in range(rng.randint(1, 2)):
            _emit(rng, lay, 'N', addr, paragraph(rng))
        lay.features.add('N-start')

def entry_footer(rng, lay, start, end, ctl):
    L = lay.lines
    if rng.random() < 0.3:
        if rng.random() < 0.2:
            L.append('@ %d ignoreua:e' % start)
            lay.features.add('ignoreua:e')
        for _ in range(rng.randint(1, 2)):
            _emit(rng, lay, 'E', start, paragraph(rng))
        lay.features.add('E')

def subblock_extras(rng, lay, start, end, sctl):
    L = lay.lines
    r = rng.random()
    if r < 0.08:
        L.append('@ %d label=S%d' % (start, start))
        lay.features.add('asm-label')
    elif r < 0.12:
        L.append('@ %d keep' % start)
        lay.features.add('asm-keep')
    elif r < 0.15:
        L.append('@ %d nowarn' % start)
        lay.features.add('asm-nowarn')

def mid_block_comment(rng, lay, addr):
    if rng.random() < 0.3:
        lay.lines.append('@ %d ignoreua:m' % addr)
        lay.features.add('ignoreua:m-mid')
    for _ in range(rng.randint(1, 2)):
        _emit(rng, lay, 'N', addr, paragraph(rng))
    lay.features.add('N-mid')
