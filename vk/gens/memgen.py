"""G-MEM: memory images with boundary bias."""

ONE = [0x00, 0x07, 0x0F, 0x17, 0x1F, 0x27, 0x2F, 0x37, 0x3F, 0x76, 0xC9, 0xD9, 0xEB, 0xF3, 0xFB, 0xE9, 0x08,
       0x3C, 0x3D, 0x23, 0x2B, 0x09, 0x19, 0xA8, 0xB0, 0x80, 0x90, 0xC5, 0xD5, 0xE5, 0xF5, 0xC1, 0xD1, 0xE1, 0xF1,
       0xC7, 0xCF, 0xD7, 0xDF, 0xE7, 0xEF, 0xF7, 0xFF, 0xC0, 0xC8, 0xD0, 0xD8]
TWO = [0x06, 0x0E, 0x16, 0x1E, 0x26, 0x2E, 0x36, 0x3E, 0xC6, 0xCE, 0xD6, 0xDE, 0xE6, 0xEE, 0xF6, 0xFE, 0x10, 0x18,
       0x20, 0x28, 0x30, 0x38, 0xD3, 0xDB]
THREE = [0x01, 0x11, 0x21, 0x31, 0x22, 0x2A, 0x32, 0x3A, 0xC3, 0xCD, 0xC2, 0xCA, 0xD2, 0xDA, 0xC4, 0xCC, 0xD4, 0xDC,
         0xE2, 0xEA, 0xF2, 0xFA, 0xE4, 0xEC, 0xF4, 0xFC]

def gen_bytes(rng, n, style=None, org=32768):
    """n bytes of the given style (random if None)."""
    if style is None:
        style = rng.choice(['uniform', 'code', 'code', 'prefix', 'text', 'runs', 'mixed'])
    out = []
    if style == 'uniform':
        out = [rng.randrange(256) for _ in range(n)]
    elif style == 'code':
        while len(out) < n:
            k = rng.random()
            if k < 0.45:
                out.append(rng.choice(ONE) if rng.random() < 0.7 else rng.randrange(256))
            elif k < 0.65:
                out += [rng.choice(TWO), rng.choice([0, 1, 0x7F, 0x80, 0xFE, 0xFF, rng.randrange(256)])]
            elif k < 0.85:
                tgt = org + rng.randrange(max(n, 1)) if rng.random() < 0.7 else rng.randrange(65536)
                out += [rng.choice(THREE), tgt & 255, (tgt >> 8) & 255]
            elif k < 0.9:
                out += [0xCB, rng.randrange(256)]
            elif k < 0.95:
                out += [0xED, rng.choice([0x40 + rng.randrange(0x40), 0xA0 + rng.randrange(0x20), rng.randrange(256)])]
                if out[-1] & 0xC7 == 0x43:
                    out += [rng.randrange(256), rng.randrange(256)]
            else:
                p = rng.choice([0xDD, 0xFD])
                o = rng.choice([0x21, 0x36, 0x46, 0x7E, 0x86, 0xCB, 0xE9, 0x09, 0x24, 0x2E, 0x34, 0x70, rng.randrange(256)])
                out += [p, o, rng.randrange(256), rng.randrange(256)][:rng.choice([2, 3, 4])] if o not in (0xCB, 0x36, 0x21) else [p, o, rng.randrange(256), rng.randrange(256)]
    elif style == 'prefix':
        while len(out) < n:
            out.append(rng.choice([0xDD, 0xFD, 0xED, 0xCB, 0xDD, 0xFD, rng.randrange(256), rng.randrange(256)]))
    elif style == 'text':
        while len(out) < n:
            w = rng.randint(1, 9)
            out += [rng.choice([32, 33, 34, 44, 46, 58, 59, 92, 94, 96, 126, 127] + list(range(65, 91)) + list(range(97, 123))) for _ in range(w)]
            if rng.random() < 0.3:
                out[-1] |= 0x80
            if rng.random() < 0.2:
                out.append(rng.choice([0, 13, 255, 22]))
    elif style == 'runs':
        while len(out) < n:
            out += [rng.choice([0, 0, 0xFF, 0xED, rng.randrange(256)])] * rng.randint(1, 40)
    else:
        while len(out) < n:
            out += gen_bytes(rng, min(n - len(out), rng.randint(1, 60)), rng.choice(['uniform', 'code', 'prefix', 'text', 'runs']), org)
    return out[:n]
