"""G-SKOOL, HTML profile (C16): skool files + ref file + skool2html options whose documented meaning is that every
generated link must resolve. Pure data generator - does not import skoolkit.

gen_case(rng) -> Case with
  .files        {relative path: str|bytes}   input files to write into the scratch directory
  .argv         skool2html arguments (without -w)
  .steps        list of -w values to run in order into the same output directory (their union is always 'dimoP')
  .odir         output directory (topdir/GameDir) relative to the scratch directory
  .model        what the documented configuration says about the tree: code paths, page of every entry,
                anchor of every instruction, which maps list which entries
  .features     set of str, for histograms

Well-formedness rules the generator obeys (each is the user's side of the contract, not skool2html's):
  * #R addresses name an instruction of a non-ignored entry of the current disassembly; #Raddr@code names an entry
    of that other disassembly, or an entry point declared by an @remote directive in the same file; explicit #R
    anchors evaluate to the entry address (which skool2html converts) or, with the default AddressAnchor only,
    are the decimal address of an instruction of that entry
  * #LINK names a page that the configuration causes to be written; anchors are box-page entry anchors or
    addresses of entries shown on that memory map
  * @remote directives name entries / instructions that exist in the other skool file, and the code id has an
    [OtherCode:id] section
  * all configured paths are distinct and CodeFiles / AddressAnchor are injective
  * free text contains none of  # { } | < > & "
"""
import posixpath

WORDS = ['the', 'sprite', 'buffer', 'HL', 'points', 'at', 'x-coordinate', 'loop', 'counter', 'is', 'decremented', 'jump', 'if',
         'zero', 'A=0', '(carry', 'set)', 'table', 'of', 'addresses;', 'see', 'below.', 'Note:', 'self-modifying', 'code', '100%',
         'a', 'I', 'and/or', "player's", 'score', '*', '->', 'end-of-data', 'marker', '$FF', '0x1F', 'bit', '7', 'semi;colon',
         'question?', 'exclaim!', 'UDG', 'attribute', 'byte', 'INK', 'PAPER', 'e.g.', 'etc.', 'x', 'y', 'z', '[brackets]', "it's"]

ANCHOR_FORMATS = [
    # (ref-file text, python format when base is decimal, python format when -H)
    ('{address}', '{address}', '{address}'),
    ('{address:04x}', '{address:04x}', '{address:04x}'),
    ('{address:04X}', '{address:04X}', '{address:04X}'),
    ('{address:05d}', '{address:05d}', '{address:05d}'),
    ('a{address}', 'a{address}', 'a{address}'),
    ('L-{address:X}', 'L-{address:X}', 'L-{address:X}'),
    ('{address#IF({mode[base]}==16)(:04X)}', '{address}', '{address:04X}'),
]
CODEFILE_FORMATS = [
    ('{address}.html', '{address}.html', '{address}.html'),
    ('{address:04x}.html', '{address:04x}.html', '{address:04x}.html'),
    ('{address:04X}.htm', '{address:04X}.htm', '{address:04X}.htm'),
    ('r{address:05d}.html', 'r{address:05d}.html', 'r{address:05d}.html'),
    ('{address#IF({mode[base]}==16)(:04X)}.html', '{address}.html', '{address:04X}.html'),
]
ADDRESS_FORMATS = ['', '{address}', '${address:04X}', '{address:04x}h']
OTHER_IDS = ['load', 'start', 'Zx2', 'save0']
MAP_TYPES = {'MemoryMap': 'bcgstuw', 'RoutinesMap': 'c', 'DataMap': 'bw', 'MessagesMap': 't', 'UnusedMap': 'su', 'GameStatusBuffer': 'g'}
MAP_DEFAULT_PATHS = {'MemoryMap': 'maps/all.html', 'RoutinesMap': 'maps/routines.html', 'DataMap': 'maps/data.html',
                     'MessagesMap': 'maps/messages.html', 'UnusedMap': 'maps/unused.html', 'GameStatusBuffer': 'buffers/gbuffer.html'}
BOX_DEFAULTS = {'Bugs': ('Bug', 'reference/bugs.html'), 'Facts': ('Fact', 'reference/facts.html'), 'Pokes': ('Poke', 'reference/pokes.html'),
                'Glossary': ('Glossary', 'reference/glossary.html'), 'GraphicGlitches': ('GraphicGlitch', 'graphics/glitches.html')}

PNG_BYTES = (b'\x89PNG\r\n\x1a\n\x00\x00\x00\rIHDR\x00\x00\x00\x01\x00\x00\x00\x01\x08\x00\x00\x00\x00:~\x9bU'
             b'\x00\x00\x00\nIDATx\x9cc`\x00\x00\x00\x02\x00\x01H\xaf\xa4q\x00\x00\x00\x00IEND\xaeB`\x82')

class Ins:
    __slots__ = ('addr', 'ctl', 'kind', 'size', 'op', 'label', 'mid', 'comment', 'keep', 'brace')
    def __init__(self, addr, ctl, kind, size):
        self.addr, self.ctl, self.kind, self.size = addr, ctl, kind, size
        self.op = None
        self.label = None
        self.mid = None         # list of paragraphs (mid-block / start comment) or None
        self.comment = None
        self.keep = False
        self.brace = ''

class Entry:
    __slots__ = ('addr', 'ctl', 'ins', 'title', 'desc', 'regs', 'end', 'remotes')
    def __init__(self, addr, ctl):
        self.addr, self.ctl = addr, ctl
        self.ins = []
        self.title = ''
        self.desc = []
        self.regs = []
        self.end = []
        self.remotes = []

class Code:
    def __init__(self, code_id, fname):
        self.id = code_id
        self.fname = fname
        self.entries = []
        self.remote = {}        # other code id -> {address: entry address}  (declared by @remote in this file)
        self.hex_addrs = False

    def live_entries(self):
        return [e for e in self.entries if e.ctl != 'i']

    def ins_map(self):
        return {i.addr: e for e in self.live_entries() for i in e.ins}

REF_KINDS = [  # (kind, template, size, weight)
    ('CALL', 'CALL {}', 3, 10), ('CALLcc', 'CALL {cc},{}', 3, 3), ('JP', 'JP {}', 3, 8), ('JPcc', 'JP {cc},{}', 3, 3),
    ('JR', 'JR {}', 2, 8), ('JRcc', 'JR {cc2},{}', 2, 4), ('DJNZ', 'DJNZ {}', 2, 4), ('RST', 'RST {}', 1, 2),
    ('LDrr', 'LD {rr},{}', 3, 5), ('LDmemA', 'LD ({}),A', 3, 2), ('LDrrmem', 'LD {rr2},({})', 4, 2), ('LDAmem', 'LD A,({})', 3, 2),
    ('LDIX', 'LD IX,{}', 4, 1), ('DEFW', 'DEFW {}', 2, 5),
]
PLAIN_KINDS = [('LD A,{n}', 2), ('XOR A', 1), ('RET', 1), ('NOP', 1), ('INC HL', 1), ('LD (HL),{n}', 2), ('LD B,{n}', 2), ('PUSH BC', 1),
               ('AND {n}', 2), ('LD A,(HL)', 1), ('EX DE,HL', 1), ('RET Z', 1)]

def _wchoice(rng, items, weights):
    return rng.choices(items, weights=weights, k=1)[0]

def gen_layout(rng, code, start, nentries, low_rom=False):
    addr = start
    types = 'cccccbbwwtgsuii'
    # 40% of the files get at least one ignored entry with several lines (operands elsewhere address its first and later lines)
    force_i = rng.randrange(1, nentries) if nentries > 1 and rng.random() < 0.4 else None
    for n in range(nentries):
        if addr > 65000:
            break
        ctl = rng.choice(types) if n else rng.choice('ccb')
        force_multi = n == force_i
        if force_multi:
            ctl = 'i'
        e = Entry(addr, ctl)
        if ctl == 'c':
            nins = rng.choice([1, 2, 3, 3, 4, 5, 6, 8, 12])
            for k in range(nins):
                if rng.random() < 0.5:
                    kind = _wchoice(rng, REF_KINDS, [r[3] for r in REF_KINDS])
                    i = Ins(addr, ' ', kind[0], kind[2])
                else:
                    tmpl, size = rng.choice(PLAIN_KINDS)
                    i = Ins(addr, ' ', 'plain', size)
                    i.op = tmpl.format(n=rng.choice([0, 1, 8, 16, 56, 128, 255]))
                if k and rng.random() < 0.25:
                    i.ctl = '*'
                e.ins.append(i)
                addr += i.size
        elif ctl in 'bgu':
            for k in range(rng.choice([1, 1, 2, 3])):
                if rng.random() < 0.2:
                    i = Ins(addr, ' ', 'DEFW', 2)
                else:
                    nb = rng.choice([1, 2, 4, 8])
                    i = Ins(addr, ' ', 'plain', nb)
                    i.op = 'DEFB ' + ','.join(str(rng.randrange(256)) for _ in range(nb))
                if k and rng.random() < 0.15:
                    i.ctl = '*'
                e.ins.append(i)
                addr += i.size
        elif ctl == 'w':
            for k in range(rng.choice([1, 2, 3, 4])):
                i = Ins(addr, ' ', 'DEFW', 2)
                e.ins.append(i)
                addr += 2
        elif ctl == 't':
            for k in range(rng.choice([1, 2])):
                s = rng.choice(['Hello', 'GAME OVER', 'a', 'Press any key'])
                i = Ins(addr, ' ', 'plain', len(s))
                i.op = 'DEFM "%s"' % s
                e.ins.append(i)
                addr += len(s)
        elif ctl == 's':
            nb = rng.choice([1, 10, 256])
            i = Ins(addr, ' ', 'plain', nb)
            i.op = 'DEFS %d' % nb
            e.ins.append(i)
            addr += nb
        else:  # i
            r = 0.0 if force_multi else rng.random()
            if r < 0.5:
                # ignored entry with several instruction/statement lines, some of them entry points
                for k in range(rng.choice([2, 2, 3, 4, 6])):
                    if rng.random() < 0.6:
                        tmpl, size = rng.choice(PLAIN_KINDS)
                        i = Ins(addr, ' ', 'plain', size)
                        i.op = tmpl.format(n=rng.choice([0, 1, 8, 255]))
                    elif rng.random() < 0.5:
                        i = Ins(addr, ' ', 'DEFW', 2)
                    else:
                        nb = rng.choice([1, 2, 4])
                        i = Ins(addr, ' ', 'plain', nb)
                        i.op = 'DEFB ' + ','.join(str(rng.randrange(256)) for _ in range(nb))
                    if k and rng.random() < 0.3:
                        i.ctl = '*'
                    e.ins.append(i)
                    addr += i.size
            elif r < 0.75:
                i = Ins(addr, ' ', 'plain', 1)
                i.op = 'DEFB 0'
                e.ins.append(i)
                addr += 1
            else:
                i = Ins(addr, ' ', 'none', 0)     # address-only ignored entry
                e.ins.append(i)
                addr += rng.choice([1, 16, 100])
        code.entries.append(e)
        if low_rom and addr < 64:
            addr = rng.choice([a for a in (8, 16, 24, 32, 40, 48, 56, 64) if a >= addr])
        elif rng.random() < 0.2:
            addr += rng.choice([1, 2, 7, 100, 1000])

class TextGen:
    """Builds annotation text with link/asset macros valid in one context (a disassembly, or the ref file)."""
    def __init__(self, rng, case, code):
        self.rng = rng
        self.case = case
        self.code = code            # Code whose writer expands the text (None: ref-file text expanded by every writer)
        self.depth = 0

    def words(self, lo=1, hi=8):
        return ' '.join(self.rng.choice(WORDS) for _ in range(self.rng.randint(lo, hi)))

    def num(self, n, allow_hex=True):
        r = self.rng.random()
        if allow_hex and r < 0.25:
            return '$%04X' % n
        if allow_hex and r < 0.35:
            return '$%04x' % n
        return str(n)

    def entry_anchor(self, addr):
        """'#' + a spelling of addr within the #R anchor grammar ([a-zA-Z0-9$#]*): decimal, zero-padded decimal, $HEX, $hex.
        (Operators and brackets are not part of that grammar, so expression anchors cannot be written.)"""
        r = self.rng.random()
        if r < 0.4:
            sp, a = 'decimal', '%d' % addr
        elif r < 0.55:
            sp, a = 'padded-decimal', '%06d' % addr
        elif r < 0.8:
            sp, a = 'HEX', '$%04X' % addr
        else:
            sp, a = 'hex', '$%x' % addr
        self.case.features.add('R:anchor-spelling=' + sp)
        return '#' + a

    def link_text(self):
        r = self.rng.random()
        if r < 0.5:
            return ''
        return '(%s)' % self.rng.choice(['here', 'this routine', 'the table', 'x', 'entry point 2', 'see [1]', 'a b c'])

    def r_macro(self):
        rng, case, code = self.rng, self.case, self.code
        if code is None:
            return None
        choices = []
        own = code.ins_map()
        if own:
            choices += ['own'] * 6
        others = [c for c in case.codes if c is not code and c.live_entries()]
        if others:
            choices += ['other'] * 3
        if code.remote:
            choices += ['remote'] * 2
        if not choices:
            return None
        k = rng.choice(choices)
        case.features.add('R:' + k)
        if k == 'own':
            addr = rng.choice(sorted(own))
            entry = own[addr]
            anchor = ''
            r = rng.random()
            if r < 0.25:
                # explicit anchor that evaluates to the address of the containing entry (documented to be converted to the
                # AddressAnchor format), whether the #R target is the entry start, an entry point or a mid-entry instruction
                anchor = self.entry_anchor(entry.addr)
                ins = next(i for i in entry.ins if i.addr == addr)
                case.features.add('R:anchor=entry' if addr == entry.addr else
                                  ('R:anchor=entry,target=entry-point' if ins.ctl == '*' else 'R:anchor=entry,target=mid-entry-instruction'))
            elif r < 0.33 and case.anchor_text == '{address}' and not case.single_page:
                # default anchor format: a decimal instruction address of that entry is a valid literal anchor
                if addr == entry.addr:
                    anchor = '#%d' % rng.choice([i.addr for i in entry.ins])
                    case.features.add('R:anchor=instruction')
            return '#R%s%s%s' % (self.num(addr), anchor, self.link_text())
        if k == 'other':
            oc = rng.choice(others)
            e = rng.choice(oc.live_entries())
            anchor = ''
            if rng.random() < 0.25:
                anchor = self.entry_anchor(e.addr)
                case.features.add('R:anchor=entry,other-code')
            return '#R%s@%s%s%s' % (self.num(e.addr), oc.id, anchor, self.link_text())
        oid = rng.choice(sorted(code.remote))
        addr = rng.choice(sorted(code.remote[oid]))
        anchor = ''
        if rng.random() < 0.3:
            # remote entry or remote entry point with an explicit anchor naming the remote entry's address
            eaddr = code.remote[oid][addr]
            anchor = self.entry_anchor(eaddr)
            case.features.add('R:anchor=entry,remote' if addr == eaddr else 'R:anchor=entry,target=remote-entry-point')
        return '#R%s@%s%s%s' % (self.num(addr), oid, anchor, self.link_text())

    def link_macro(self):
        rng, case = self.rng, self.case
        targets = case.link_targets
        if self.code is not None and self.code.id != 'main':
            # the writer of a secondary disassembly registers a custom memory map's path, title and link text only if that
            # map would list entries of the secondary skool file; otherwise #LINK fails ("Unknown page ID", or KeyError
            # for a blank link text) - a failure of the tool, not a link, so not generated
            targets = [t for t in targets if t[0] not in case.custom_map_ids]
        if not targets:
            return None
        page_id, anchors = rng.choice(targets)
        anchor = ''
        if anchors and rng.random() < 0.5:
            anchor = '#' + str(rng.choice(anchors))
            case.features.add('LINK:anchor')
        text = rng.choice(['', 'page', 'the map', 'details here'])
        if anchor and page_id in case.list_box_pages and text == '':
            # skool2html raises ValueError for a blank link text with an anchor on a ListItems/BulletPoints box page
            # (expand_link unpacks 3 fields from 4-field entries): a crash, not a link, so outside this property
            text = 'log entry'
        case.features.add('LINK')
        return '#LINK(%s%s)(%s)' % (page_id, anchor, text)

    def image_macro(self):
        rng, case = self.rng, self.case
        r = rng.random()
        name = rng.choice(case.image_names)
        form = rng.random()
        if form < 0.55:
            fname = name
        elif form < 0.65:
            fname = name + '.png'
        elif form < 0.75:
            fname = 'sub/' + name
        elif form < 0.85:
            fname = '/' + rng.choice(['pics', 'img/abs']) + '/' + name
        else:
            fname = '{%s}/%s' % (rng.choice(['ScreenshotImagePath', 'ImagePath', 'UDGImagePath', 'FontImagePath']), name)
        if rng.random() < 0.15:
            fname += '|alt text %d' % rng.randrange(10)
        case.features.add('image')
        if r < 0.35:
            a = rng.choice([0, 15360, 32768, 39144, 65528])
            if rng.random() < 0.3:
                case.features.add('image:default-name')
                return '#UDG%d,%d' % (a, rng.choice([56, 7]))      # default file name, shared between pages
            return '#UDG%d,%d,%d(%s)' % (a, rng.randrange(128), rng.choice([1, 2, 4]), fname)
        if r < 0.55:
            return '#SCR%d,%d,%d,%d,%d(%s)' % (rng.choice([1, 2]), rng.randrange(28), rng.randrange(20), rng.randint(1, 4), rng.randint(1, 4), fname)
        if r < 0.7:
            return '#FONT%d(%s)(%s)' % (rng.choice([15616, 32768]), rng.choice(['A', 'Hi', 'xyz']), fname)
        if r < 0.9:
            return '#UDGARRAY%d,%d,%d(%d-%d-8)(%s)' % (rng.choice([1, 2]), rng.randrange(128), rng.choice([1, 2]), 32768, 32768 + 8 * rng.randint(1, 3), fname)
        case.features.add('image:animated')
        fr = 'f%d' % rng.randrange(1000)
        return '#UDG32768,6(*%sa)#UDG32776,5(%s*%sb)#FRAMES(%sa,25;%sb)(%s)' % (fr, fr, fr, fr, fr, fname)

    def audio_macro(self):
        rng, case = self.rng, self.case
        name = rng.choice(case.audio_names)
        if rng.random() < 0.2:
            name = '/' + rng.choice(['snd', 'a/b']) + '/' + name
        case.features.add('audio')
        return '#AUDIO0(%s%s)(%s)' % (name, rng.choice(['.wav', '.wav', '.WAV', '.Wav']), ','.join(str(rng.choice([100, 500, 1000])) for _ in range(rng.randint(2, 6))))

    def html_macro(self):
        self.case.features.add('external-link')
        return self.rng.choice(['#HTML(<a href="https://example.com/a/b.html#x">ext</a>)', '#HTML(<a href="mailto:nobody@example.com">mail</a>)',
                                '#HTML(<a href="//example.com/p">proto</a>)'])

    def macro(self, images=True):
        rng = self.rng
        r = rng.random()
        m = None
        if r < 0.5:
            m = self.r_macro()
        elif r < 0.72:
            m = self.link_macro()
        elif r < 0.9:
            m = self.image_macro() if images else None
        elif r < 0.96:
            m = self.audio_macro() if images else None
        else:
            m = self.html_macro()
        return m

    def text(self, p_macro=0.35, lo=1, hi=8, images=True):
        rng = self.rng
        parts = [self.words(lo, hi)]
        while rng.random() < p_macro:
            m = self.macro(images)
            if m:
                parts.append(m)
                parts.append(self.words(1, 3))
        if self.depth == 0 and rng.random() < 0.04:
            self.depth += 1
            cells = [self.text(0.5, 1, 2) for _ in range(rng.randint(1, 3))]
            self.depth -= 1
            if rng.random() < 0.5:
                parts.append('#TABLE(default) { =h A | =h B } ' + ' '.join('{ %s | %d }' % (c, n) for n, c in enumerate(cells)) + ' TABLE#')
                self.case.features.add('TABLE')
            else:
                parts.append('#LIST ' + ' '.join('{ %s }' % c for c in cells) + ' LIST#')
                self.case.features.add('LIST')
        return ' '.join(parts)

class Case:
    pass

def _unique_paths(rng):
    """Pool of distinct relative directory names / file names."""
    # none of these is (a prefix of) a default directory or an other-code id, so a fresh name can never collide with a default path
    dirs = ['code/main', 'c', 'm/a/p', 'ref', 'bufs', 'gfx', 'img/all', 'i', 'snd/x', 'css', 'styles/a', 'js', 'scripts/b', 'pg',
            'other/pages', 'fonts', 'one', 'two/three', 'zz', 'Dir With Space', 'd.e', 'very/deep/dir/tree', 'k', 'q/r']
    rng.shuffle(dirs)
    return dirs

def gen_case(rng):
    case = Case()
    case.features = set()
    case.files = {}
    f = case.features

    # ---------------------------------------------------------------- options
    base_hex = False
    argv = ['-q']
    r = rng.random()
    if r < 0.3:
        argv.append('-H')
        base_hex = True
    elif r < 0.45:
        argv.append('-D')
    r = rng.random()
    if r < 0.2:
        argv.append('-l')
    elif r < 0.4:
        argv.append('-u')
    if rng.random() < 0.3:
        argv.append('-a')
    if rng.random() < 0.3:
        argv.append('-C')
    if rng.random() < 0.15:
        argv.append('-o')
    if rng.random() < 0.1:
        argv.append('-O')
    single = rng.random() < 0.25
    single_via_opt = single and rng.random() < 0.5
    if single_via_opt:
        argv.append('-1')
    case.single_page = single
    case.base_hex = base_hex

    # ---------------------------------------------------------------- directories
    srcdir = rng.choice(['', '', 'src', 'in/put'])
    topdir = rng.choice(['', 'out', 'o/p', 'html dir'])
    prefix = rng.choice(['game', 'prog', 'Manic_Miner', 'a.b'])
    game_dir = prefix
    config = {}
    if rng.random() < 0.25:
        game_dir = rng.choice(['gd', 'g/h', 'Game Dir'])
        config['GameDir'] = game_dir
    if topdir:
        argv += ['-d', topdir]
    case.odir = posixpath.join(topdir, game_dir) if topdir else game_dir
    skoolfile = posixpath.join(srcdir, prefix + '.skool') if srcdir else prefix + '.skool'
    reffile = posixpath.join(srcdir, prefix + '.ref') if srcdir else prefix + '.ref'

    # ---------------------------------------------------------------- codes and layouts
    main = Code('main', skoolfile)
    case.codes = [main]
    nother = rng.choice([0, 0, 1, 1, 2])
    oids = rng.sample(OTHER_IDS, nother)
    other_sources = {}
    for oid in oids:
        if rng.random() < 0.5:
            src = oid + '.skool'          # default Source
        else:
            src = rng.choice(['sec-%s.skool', 'other_%s.skool']) % oid
            other_sources[oid] = src
        case.codes.append(Code(oid, posixpath.join(srcdir, src) if srcdir else src))
    low_rom = rng.random() < 0.12
    for n, code in enumerate(case.codes):
        if n == 0 and low_rom:
            start = 0
            f.add('low-rom')
        elif rng.random() < 0.15 and n:
            start = case.codes[0].entries[0].addr      # overlapping address ranges between disassemblies
            f.add('overlapping-codes')
        else:
            start = rng.choice([16384, 23296, 24576, 32768, 40000, 49152, 60000, rng.randrange(16384, 64000)])
        code.hex_addrs = rng.random() < 0.25
        gen_layout(rng, code, start, rng.choice([2, 4, 6, 9, 14, 20]) if n == 0 else rng.choice([1, 3, 6, 10]), low_rom and n == 0)

    # ---------------------------------------------------------------- @remote declarations
    for code in case.codes:
        for oc in case.codes:
            if oc is code or rng.random() < 0.35:
                continue
            live = oc.live_entries()
            if not live:
                continue
            for e in rng.sample(live, min(len(live), rng.choice([1, 1, 2, 3]))):
                addrs = [e.addr]
                extra = [i.addr for i in e.ins[1:]]
                rng.shuffle(extra)
                addrs += sorted(extra[:rng.choice([0, 0, 1, 2])])
                d = code.remote.setdefault(oc.id, {})
                if any(a in d for a in addrs):
                    continue
                for a in addrs:
                    d[a] = e.addr
                rng.choice(code.entries).remotes.append('@remote=%s:%s' % (oc.id, ','.join(('$%04X' % a) if rng.random() < 0.2 else str(a) for a in addrs)))
                f.add('@remote')
                if len(addrs) > 1:
                    f.add('@remote:entry-points')

    # ---------------------------------------------------------------- ref settings: formats and paths
    at = rng.choice(ANCHOR_FORMATS) if rng.random() < 0.6 else ANCHOR_FORMATS[0]
    cf = rng.choice(CODEFILE_FORMATS) if rng.random() < 0.5 else CODEFILE_FORMATS[0]
    case.anchor_text = at[0]
    anchor_fmt = at[2] if base_hex else at[1]
    codefile_fmt = cf[2] if base_hex else cf[1]
    game = {}
    paths = {}
    if at[0] != '{address}':
        game['AddressAnchor'] = at[0]
        f.add('AddressAnchor')
    if cf[0] != '{address}.html':
        paths['CodeFiles'] = cf[0]
        f.add('CodeFiles')
    if rng.random() < 0.3:
        game['Address'] = rng.choice(ADDRESS_FORMATS[1:])
        f.add('Address')
    if single and not single_via_opt:
        game['AsmSinglePage'] = '1'
    if single:
        f.add('single-page')
    if rng.random() < 0.5:
        ops = rng.choice(['CALL,DEFW,DJNZ,JP,JR,LD,RST', 'CALL,JP', 'LD,DEFW', 'call,jp,jr,djnz,rst', 'CALL,DEFW,DJNZ,JP,JR,LD'])
        game['LinkOperands'] = ops
        f.add('LinkOperands')
    if rng.random() < 0.4:
        game['LinkInternalOperands'] = '1'
        f.add('LinkInternalOperands')
        if rng.random() < 0.3:
            game['LinkInternalOperandsMinDistance'] = str(rng.choice([1, 4, 16]))
    if rng.random() < 0.2:
        game['Bytes'] = '02X'

    dirs = _unique_paths(rng)
    extra_dirs = [0]
    def newdir():
        if dirs:
            return dirs.pop()
        extra_dirs[0] += 1
        return 'xd%d' % extra_dirs[0]
    custom_paths = rng.random() < 0.6
    def maybe(key, default, gen):
        if custom_paths and rng.random() < 0.4:
            paths[key] = gen()
            f.add('Paths')
            return paths[key]
        return default
    code_path = maybe('CodePath', 'asm', newdir)
    if custom_paths and rng.random() < 0.05:
        paths['CodePath'] = code_path = '.'
    image_path = maybe('ImagePath', 'images', newdir)
    if custom_paths and rng.random() < 0.2:
        paths['UDGImagePath'] = rng.choice(['{ImagePath}/u', newdir(), '{ScreenshotImagePath}/udgs'])
    if custom_paths and rng.random() < 0.2:
        paths['ScreenshotImagePath'] = rng.choice(['{ImagePath}/screens', newdir()])
    if custom_paths and rng.random() < 0.2:
        paths['FontImagePath'] = rng.choice(['{ImagePath}/f', newdir()])
    maybe('AudioPath', 'audio', newdir)
    css_path = maybe('StyleSheetPath', '.', newdir)
    js_path = maybe('JavaScriptPath', '.', newdir)
    maybe('FontPath', '.', newdir)
    index_path = maybe('GameIndex', 'index.html', lambda: rng.choice(['home.html', newdir() + '/index.html']))
    single_path = maybe('AsmSinglePage', 'asm.html', lambda: rng.choice(['dis.html', newdir() + '/all.html']))
    map_paths = {}
    for map_id, default in MAP_DEFAULT_PATHS.items():
        map_paths[map_id] = maybe(map_id, default, lambda: rng.choice([newdir() + '/' + map_id.lower() + '.html', map_id + '.html']))

    # other code paths
    code_paths = {'main': code_path}
    single_paths = {'main': single_path}
    index_paths = {}
    for oid in oids:
        code_paths[oid] = maybe(oid + '-CodePath', oid, newdir)
        single_paths[oid] = maybe(oid + '-AsmSinglePage', oid + '/asm.html', lambda: newdir() + '/' + oid + '-asm.html')
        index_paths[oid] = maybe(oid + '-Index', '%s/%s.html' % (oid, oid), lambda: rng.choice([newdir() + '/idx.html', oid + '-index.html']))

    # ---------------------------------------------------------------- pages, box pages, custom maps
    sections = []          # (name, [lines])
    link_targets = []      # (page id, [valid anchors])
    map_members = {}       # map id -> [entry addresses] for maps that are written
    map_overrides = {}
    for map_id, types in MAP_TYPES.items():
        members = [e.addr for e in main.live_entries() if e.ctl in types]
        ov = {}
        if map_id != 'MemoryMap':
            r = rng.random()
            if r < 0.08:
                ov['Write'] = '0'
            elif r < 0.2 and main.live_entries():
                inc = rng.sample([e.addr for e in main.live_entries()], min(len(main.live_entries()), 2))
                ov['Includes'] = ','.join(str(a) for a in inc)
                members = sorted(set(members) | set(inc))
                f.add('MemoryMap:Includes')
        if rng.random() < 0.2:
            ov[rng.choice(['LabelColumn', 'LengthColumn', 'PageByteColumns', 'EntryDescriptions'])] = '1'
        if ov:
            map_overrides[map_id] = ov
        if ov.get('Write') != '0' and members:
            map_members[map_id] = members
    ncustom_maps = rng.choice([0, 0, 1, 2]) if main.live_entries() else 0
    custom_map_ids = []
    for n in range(ncustom_maps):
        map_id = rng.choice(['Sprites', 'Tables', 'EntryPoints', 'Stuff']) + str(n)
        ov = {}
        members = set()
        if rng.random() < 0.6:
            ov['EntryTypes'] = rng.choice(['c', 'bw', 'cg', 'tsu'])
            members |= {e.addr for e in main.live_entries() if e.ctl in ov['EntryTypes']}
        if rng.random() < 0.6 or not ov:
            lo = rng.choice(main.live_entries()).addr
            hi = lo + rng.choice([0, 10, 100, 1000])
            ov['Includes'] = '%d-%d' % (lo, hi) if hi > lo else str(lo)
            members |= {e.addr for e in main.live_entries() if lo <= e.addr <= hi}
        if rng.random() < 0.4:
            paths[map_id] = map_paths[map_id] = newdir() + '/' + map_id + '.html'
        else:
            map_paths[map_id] = 'maps/%s.html' % map_id
        map_overrides[map_id] = ov
        custom_map_ids.append(map_id)
        if members:
            map_members[map_id] = sorted(members)
        f.add('MemoryMap:custom')
    for map_id, members in map_members.items():
        link_targets.append((map_id, members))
    case.custom_map_ids = set(custom_map_ids)

    box_pages = {}          # page id -> (path, [anchors])
    for page_id, (sprefix, default) in BOX_DEFAULTS.items():
        if rng.random() < 0.25:
            n = rng.randint(1, 3)
            anchors = ['%s%d' % (sprefix.lower(), k) for k in range(n)]
            box_pages[page_id] = (maybe(page_id, default, lambda: newdir() + '/' + page_id.lower() + '.html'), anchors, sprefix, 'para')
    if rng.random() < 0.2:
        box_pages['Changelog'] = (maybe('Changelog', 'reference/changelog.html', lambda: newdir() + '/log.html'), ['20240101', '20230615'][:rng.randint(1, 2)], 'Changelog', 'list')
    if rng.random() < 0.2:
        pid = 'Notes'
        sections.append(('Page:Notes', ['SectionPrefix=Note', 'SectionType=BulletPoints']))
        if rng.random() < 0.5:
            paths[pid] = newdir() + '/notes.html'
        box_pages[pid] = (paths.get(pid, 'Notes.html'), ['n1', 'n2'], 'Note', 'bullets')
    case.list_box_pages = {pid for pid, v in box_pages.items() if v[3] != 'para'}
    for pid, (p, anchors, sprefix, kind) in box_pages.items():
        link_targets.append((pid, anchors))
        f.add('box-page:' + kind)
    custom_pages = []
    for n in range(rng.choice([0, 0, 1, 2, 3])):
        pid = rng.choice(['Custom', 'Intro', 'Credits', 'Maps2']) + str(n)
        if rng.random() < 0.5:
            paths[pid] = rng.choice([newdir() + '/' + pid.lower() + '.html', pid.lower() + '-page.html'])
        custom_pages.append(pid)
        link_targets.append((pid, []))
        f.add('custom-page')
    link_targets.append(('GameIndex', []))
    if single:
        link_targets.append(('AsmSinglePage', []))
    for oid in oids:
        if next(c for c in case.codes if c.id == oid).live_entries():
            link_targets.append((oid + '-Index', []))
    case.link_targets = link_targets
    case.image_names = ['img%d' % rng.randrange(6) for _ in range(4)] + ['pic one']
    case.audio_names = ['snd%d' % rng.randrange(3) for _ in range(2)]

    # ---------------------------------------------------------------- fill in operands and annotations
    all_by_code = {c.id: c for c in case.codes}
    for code in case.codes:
        tg = TextGen(rng, case, code)
        own = code.ins_map()
        own_addrs = sorted(own)
        entry_addrs = [e.addr for e in code.live_entries()]
        c_entry_addrs = [e.addr for e in code.live_entries() if e.ctl == 'c']
        ignored = [i.addr for e in code.entries if e.ctl == 'i' for i in e.ins]
        remote_addrs = [a for d in code.remote.values() for a in d]
        ignored_later = [i.addr for e in code.entries if e.ctl == 'i' for i in e.ins[1:]]
        # ignored entries of the other disassemblies (never declared by @remote: ignored entries have no page)
        other_ignored = [i.addr for oc in case.codes if oc is not code for e in oc.entries if e.ctl == 'i' for i in e.ins
                         if i.addr not in own and i.addr not in remote_addrs]
        undeclared = [e.addr for oc in case.codes if oc is not code for e in oc.live_entries() if e.addr not in own and e.addr not in remote_addrs]
        label_n = 0
        for e in code.entries:
            for idx, i in enumerate(e.ins):
                if i.kind in ('plain', 'none'):
                    pass
                elif i.kind == 'RST':
                    i.op = 'RST %s' % tg.num(rng.choice([0, 8, 16, 24, 32, 40, 48, 56]))
                else:
                    r = rng.random()
                    pool = None
                    if ignored and rng.random() < 0.14:
                        # first or (more often) a later line of an ignored entry: must stay unlinked, there is no page for it
                        if ignored_later and rng.random() < 0.7:
                            pool, feat = ignored_later, 'ignored-entry-later-line'
                        else:
                            pool, feat = ignored, 'ignored-entry'
                    elif other_ignored and rng.random() < 0.04:
                        pool, feat = other_ignored, 'other-code-ignored-entry'
                    elif r < 0.3 and c_entry_addrs:
                        pool, feat = c_entry_addrs, 'entry'
                    elif r < 0.55 and own_addrs:
                        pool, feat = own_addrs, 'instruction'
                    elif r < 0.62:
                        pool, feat = [i.addr], 'self'
                    elif r < 0.72 and remote_addrs:
                        pool, feat = remote_addrs, 'remote'
                    elif r < 0.78 and undeclared:
                        pool, feat = undeclared, 'other-code-undeclared'
                    elif r < 0.84 and ignored:
                        pool, feat = ignored, 'ignored-entry'
                    elif r < 0.92:
                        mids = [x.addr + 1 for en in code.entries for x in en.ins if x.size > 1 and x.addr + 1 not in own]
                        pool, feat = (mids or [1]), 'mid-instruction'
                    else:
                        pool, feat = [rng.randrange(65536)], 'random'
                    if i.kind in ('JR', 'JRcc', 'DJNZ'):
                        near = [a for a in pool if -126 <= a - i.addr <= 129]
                        if near:
                            pool = near
                        elif feat != 'random':
                            # keep relative jumps assemblable: fall back to a nearby own instruction
                            near = [a for a in own_addrs if -126 <= a - i.addr <= 129]
                            pool, feat = (near or [i.addr]), 'instruction'
                    target = rng.choice(pool)
                    f.add('operand:' + feat)
                    if feat.startswith('ignored-entry'):
                        f.add('operand:%s:%s' % (feat, 'DEFW/LD' if i.kind.startswith(('DEFW', 'LD')) else 'CALL/JP/JR/DJNZ'))
                    tmpl = next(k[1] for k in REF_KINDS if k[0] == i.kind)
                    i.op = tmpl.format(tg.num(target), cc=rng.choice(['Z', 'NZ', 'C', 'NC', 'PE', 'M']), cc2=rng.choice(['Z', 'NZ', 'C', 'NC']),
                                       rr=rng.choice(['HL', 'BC', 'DE', 'SP']), rr2=rng.choice(['BC', 'DE', 'SP']))
                    if rng.random() < 0.04:
                        i.keep = True
                        f.add('@keep')
                if i.kind != 'none':
                    if rng.random() < (0.35 if idx == 0 else 0.12):
                        label_n += 1
                        i.label = rng.choice(['START', 'LOOP', 'DATA', 'l', 'Draw_Sprite']) + str(label_n)
                        f.add('@label')
                    if rng.random() < 0.4:
                        i.comment = tg.text(0.25, 1, 6)
                    if idx and rng.random() < 0.15:
                        i.mid = [tg.text(0.3) for _ in range(rng.randint(1, 2))]
                        f.add('mid-block-comment')
            # brace groups
            if len(e.ins) >= 2 and e.ins[0].kind != 'none' and rng.random() < 0.15:
                k = rng.randrange(len(e.ins) - 1)
                e.ins[k].brace = '{'
                e.ins[k + 1].brace = '}'
                e.ins[k].comment = e.ins[k].comment or tg.words()
                e.ins[k + 1].comment = e.ins[k + 1].comment or tg.words()
            e.title = tg.text(0.15, 1, 5, images=False)
            if rng.random() < 0.5:
                e.desc = [tg.text(0.4) for _ in range(rng.randint(1, 2))]
            if e.desc and rng.random() < 0.3:
                e.regs = ['%s %s' % (rng.choice(['A', 'HL', 'BC', 'Input:DE', 'O:A']), tg.text(0.2, 1, 4)) for _ in range(rng.randint(1, 2))]
            if e.desc and e.ins[0].kind != 'none' and rng.random() < 0.2:
                e.ins[0].mid = [tg.text(0.3)]
                f.add('start-comment')
            if e.ins[0].kind != 'none' and rng.random() < 0.15:
                e.end = [tg.text(0.3)]
        case.files[code.fname] = render_skool(rng, code)

    # ---------------------------------------------------------------- ref file text
    rt = TextGen(rng, case, None)        # text expanded by every writer: no #R
    mt = TextGen(rng, case, main)        # text expanded by the main writer only
    for oid in oids:
        lines = []
        if oid in other_sources:
            lines.append('Source=' + other_sources[oid])
        sections.append(('OtherCode:' + oid, lines))
        f.add('OtherCode')
    for map_id, ov in map_overrides.items():
        lines = ['%s=%s' % kv for kv in ov.items()]
        if rng.random() < 0.3:
            lines.append('Intro=' + mt.text(0.5))
        sections.append(('MemoryMap:' + map_id, lines))
    for pid, (p, anchors, sprefix, kind) in box_pages.items():
        for k, a in enumerate(anchors):
            if kind == 'para':
                body = [mt.text(0.5), '', mt.text(0.3)]
                sections.append(('%s:%s:%s' % (sprefix, a, 'Title %d' % k), body))
            elif kind == 'list':
                sections.append(('%s:%s' % (sprefix, a), [rng.choice(['-', 'Intro words']), '', mt.text(0.3, 1, 4), '  ' + mt.text(0.3, 1, 3), 'second item']))
            else:
                sections.append(('%s:%s:%s' % (sprefix, a, 'Note %d' % k), ['-', '', '- ' + mt.text(0.3, 1, 4), '  - sub ' + mt.text(0.3, 1, 3), '- last']))
    for pid in custom_pages:
        lines = ['PageContent=' + mt.text(0.7, 2, 10)]
        if rng.random() < 0.3:
            lines.append('JavaScript=' + rng.choice(['page.js', 'page.js;extra.js']))
            f.add('page-js')
        sections.append(('Page:' + pid, lines))
    ext_page = None
    resources = []
    if rng.random() < 0.15:
        ext_page = 'Manual'
        dest = newdir()
        sections.append(('Page:Manual', ['Content=%s/manual.html' % dest]))
        resources.append('manual.html=' + dest)
        case.files[posixpath.join(srcdir, 'manual.html') if srcdir else 'manual.html'] = '<html><head><title>m</title></head><body><p id="m1">manual</p><a href="#m1">x</a></body></html>\n'
        f.add('content-page')
    extra_index = custom_pages + custom_map_ids + ([ext_page] if ext_page else []) + (['Notes'] if 'Notes' in box_pages else [])
    if extra_index or rng.random() < 0.2:
        sections.append(('Index', ['MemoryMaps', 'Graphics', 'DataTables', 'OtherCode', 'Reference', 'Extra']))
        # also lists a page id that is never written: the index must leave it out
        sections.append(('Index:Extra:Extra pages', extra_index + ['MessagesMap', 'NoSuchPage']))
    # stylesheets, javascript, logo, resources
    css = ['skoolkit.css']
    if rng.random() < 0.3:
        css.append('game.css')
        case.files[posixpath.join(srcdir, 'game.css') if srcdir else 'game.css'] = 'body { color: red; }\n'
        f.add('extra-css')
    if len(css) > 1 or rng.random() < 0.1:
        game['StyleSheet'] = ';'.join(css)
    if rng.random() < 0.2:
        argv += ['-T', rng.choice(['dark', 'green', 'nosuchtheme'])]
        f.add('-T')
    if rng.random() < 0.12 and css_path == '.':
        # (-j into a StyleSheetPath directory that does not exist yet fails with FileNotFoundError - not a link problem)
        argv += ['-j', rng.choice(['all.css', 'joined-styles.css'])]
        f.add('-j')
    js_needed = set()
    if rng.random() < 0.25:
        game['JavaScript'] = rng.choice(['game.js', 'game.js;extra.js'])
        js_needed.update(game['JavaScript'].split(';'))
        f.add('game-js')
    for name, lines in sections:
        for l in lines:
            if l.startswith('JavaScript='):
                js_needed.update(l[11:].split(';'))
    for j in js_needed:
        case.files[posixpath.join(srcdir, j) if srcdir else j] = '// %s\n' % j
    r = rng.random()
    if r < 0.15:
        dest = rng.choice([image_path, newdir()])
        resources.append('logo.png=' + dest)
        case.files[posixpath.join(srcdir, 'logo.png') if srcdir else 'logo.png'] = PNG_BYTES
        game['LogoImage'] = dest + '/logo.png'
        f.add('LogoImage')
    elif r < 0.3:
        game['Logo'] = '#UDG32768,7,2(logo)' if rng.random() < 0.5 else '#SCR1,0,0,3,1(logo|The Game)'
        f.add('Logo')
    if rng.random() < 0.2:
        # [Game] values are expanded without a current directory: link and image macros are not usable there
        game['Copyright'] = rt.words(1, 4) + ' ' + rt.html_macro()
    if rng.random() < 0.1:
        game['Release'] = 'The release ' + rt.words(1, 2)
    if rng.random() < 0.1:
        config['Expand'] = '#DEF(#HOMELINK #LINK(GameIndex)(home))'
    if game:
        sections.append(('Game', ['%s=%s' % kv for kv in game.items()]))
    if paths:
        sections.append(('Paths', ['%s=%s' % kv for kv in paths.items()]))
    if resources:
        sections.append(('Resources', resources))
    if config:
        sections.append(('Config', ['%s=%s' % kv for kv in config.items()]))
    if rng.random() < 0.15:
        sections.append(('Links', ['MemoryMap=[Everything] (all of it)', 'GameIndex=Home']))
    if rng.random() < 0.15 and main.live_entries():
        sections.append(('EntryGroups', ['Special=%d' % main.live_entries()[0].addr]))
        sections.append(('Titles', ['Asm-Special=Special thing at {entry[address]}']))
    rng.shuffle(sections)
    # some settings travel on the command line instead of the ref file
    ref_lines = []
    appended = []
    def emit(name, lines):
        ref_lines.append('[%s]' % name)
        if rng.random() < 0.1:
            ref_lines.append('; a comment line')
        # a content line that starts with ';' or '[' is escaped by doubling that character
        ref_lines.extend((l[0] + l) if l[:1] in (';', '[') else l for l in lines)
        ref_lines.append('')
    for name, lines in sections:
        if name in ('Game', 'Paths') and lines and rng.random() < 0.25:
            k = rng.randrange(len(lines))
            argv += ['-c', '%s/%s' % (name, lines[k])]
            lines = lines[:k] + lines[k + 1:]
            f.add('-c')
        if name in ('Game', 'Paths') and len(lines) >= 2 and rng.random() < 0.3:
            k = rng.randrange(1, len(lines))
            appended.append((name + '+', lines[k:]))        # [Name+] appends to the section
            lines = lines[:k]
            f.add('[Section+]')
        emit(name, lines)
    for name, lines in appended:
        emit(name, lines)
    split_ref = rng.random() < 0.15 and len(ref_lines) > 6
    if split_ref:
        # second ref file picked up by the prefix*.ref glob
        cut = next((n for n in range(len(ref_lines) // 2, len(ref_lines)) if ref_lines[n].startswith('[')), None)
        if cut:
            case.files[reffile[:-4] + '-extra.ref'] = '\n'.join(ref_lines[cut:]) + '\n'
            ref_lines = ref_lines[:cut]
            f.add('two-ref-files')
    case.files[reffile] = '\n'.join(ref_lines) + '\n'

    # ---------------------------------------------------------------- -w steps
    r = rng.random()
    if r < 0.7:
        case.steps = ['dimoP'] if rng.random() < 0.5 else [None]      # None: option not given
    else:
        letters = list('dimoP')
        rng.shuffle(letters)
        k = rng.randint(1, 4)
        case.steps = [''.join(letters[:k]), ''.join(letters[k:])]
        f.add('-w subsets')
    case.argv = argv
    case.skoolfile = skoolfile

    # ---------------------------------------------------------------- model
    model = {'single_page': single, 'anchor_fmt': anchor_fmt, 'codes': {}, 'maps': {}, 'index': index_path}
    for code in case.codes:
        ents = []
        for e in code.live_entries():
            if single:
                page = single_paths[code.id]
            else:
                page = posixpath.normpath(posixpath.join(code_paths[code.id], codefile_fmt.format(address=e.addr)))
            ents.append({'addr': e.addr, 'ctl': e.ctl, 'page': page, 'ins': [i.addr for i in e.ins],
                         'mid': [i.addr for i in e.ins if i.mid], 'points': [i.addr for i in e.ins if i.ctl == '*']})
        model['codes'][code.id] = {'entries': ents, 'index': index_paths.get(code.id), 'single': single_paths[code.id],
                                   'own': sorted(code.ins_map()),
                                   'remote': {str(a): oid for oid, d in code.remote.items() for a in d}}
    for map_id, members in map_members.items():
        model['maps'][map_id] = {'path': map_paths[map_id], 'addrs': members, 'main': True}
    for oid in oids:
        c = all_by_code[oid]
        if c.live_entries():
            model['maps'][oid + '-Index'] = {'path': index_paths[oid], 'addrs': [e.addr for e in c.live_entries()]}
    case.model = model
    return case

def render_skool(rng, code):
    out = []
    def a(addr):
        return ('$%04X' % addr) if code.hex_addrs else ('%05d' % addr)
    for n, e in enumerate(code.entries):
        if n:
            out.append('')
        for r in e.remotes:
            out.append(r)
        first = e.ins[0]
        if e.ctl == 'i' and rng.random() < 0.5:
            pass        # no header at all
        else:
            out.append('; ' + e.title)
            if e.desc or e.regs or first.mid:
                out.append(';')
                for k, p in enumerate(e.desc or ['.']):
                    if k:
                        out.append('; .')
                    out.append('; ' + p)
            if e.regs or first.mid:
                out.append(';')
                for r in e.regs or ['.']:
                    out.append('; ' + r)
            if first.mid:
                out.append(';')
                for k, p in enumerate(first.mid):
                    if k:
                        out.append('; .')
                    out.append('; ' + p)
        for idx, i in enumerate(e.ins):
            if idx and i.mid:
                for k, p in enumerate(i.mid):
                    if k:
                        out.append('; .')
                    out.append('; ' + p)
            if i.label:
                out.append('@label=' + i.label)
            if i.keep:
                out.append('@keep')
            ctl = e.ctl if idx == 0 else i.ctl
            if i.kind == 'none':
                out.append('%s%s' % (ctl, a(i.addr)))
                continue
            line = '%s%s %s' % (ctl, a(i.addr), i.op)
            if i.comment is not None or i.brace:
                c = i.comment or ''
                if i.brace == '{':
                    c = '{' + c
                elif i.brace == '}':
                    c = c + '}'
                line = '%-24s ; %s' % (line, c)
            out.append(line)
        for k, p in enumerate(e.end):
            if k:
                out.append('; .')
            out.append('; ' + p)
    return '\n'.join(out) + '\n'
