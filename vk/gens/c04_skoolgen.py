"""G-SKOOL, assembly profile (C04): skool files whose instructions, DEFB/DEFM/DEFS/DEFW statements and ASM
directives are built from templates of KNOWN size, so that the generator (not skoolkit) lays out the addresses and
knows, for every numeric literal it writes, whether it is an address-like (16-bit) operand or a plain byte.

Nothing here imports skoolkit.  The only thing the generator cannot know by itself is the byte encoding of an
instruction (needed for `@bytes` directives that must agree with the assembler); `SkoolFile.render(encode)` takes a
callback for that.

What the file records for the checker (all JSON-able, see SkoolFile.meta()):
  moving_kinds   directive kinds (isub ssub rsub ofix bfix rfix) that own at least one directive which is NOT a
                 one-for-one, size-preserving replacement (insert before/after, different size, overwrite, removal,
                 block directives); 'all' when an @org value differs from the skool address
  unlabelled_refs  address-like literals (in any operation text of the file, original or substituted) that equal the
                 skool address of an instruction which carries no explicit, unconditional label
  alt_bytes      skool addresses of instructions whose @bytes directive is an alternative encoding (differs from the
                 assembler's); only generated in files without any moving kind
"""

KINDS = ('isub', 'ssub', 'rsub', 'ofix', 'bfix', 'rfix')

R8 = ['B', 'C', 'D', 'E', 'H', 'L', '(HL)', 'A']
R8S = ['B', 'C', 'D', 'E', 'H', 'L', 'A']
R16 = ['BC', 'DE', 'HL', 'SP']
CC = ['NZ', 'Z', 'NC', 'C', 'PO', 'PE', 'P', 'M']
ALU = ['ADD A,', 'ADC A,', 'SUB ', 'SBC A,', 'AND ', 'XOR ', 'OR ', 'CP ']
ROT = ['RLC', 'RRC', 'RL', 'RR', 'SLA', 'SRA', 'SLL', 'SRL']

def _families():
    fam = {}
    f = fam.setdefault
    # ---- size 1, no numeric operand
    s1 = ['NOP', 'RET', 'EXX', 'DI', 'EI', 'HALT', 'RLA', 'RRA', 'RLCA', 'RRCA', 'CPL', 'DAA', 'SCF', 'CCF',
          "EX AF,AF'", 'EX DE,HL', 'EX (SP),HL', 'JP (HL)', 'LD SP,HL', 'LD A,(BC)', 'LD A,(DE)', 'LD (BC),A', 'LD (DE),A']
    s1 += ['RET ' + c for c in CC]
    s1 += ['PUSH ' + r for r in ('BC', 'DE', 'HL', 'AF')] + ['POP ' + r for r in ('BC', 'DE', 'HL', 'AF')]
    s1 += ['INC ' + r for r in R16 + R8] + ['DEC ' + r for r in R16 + R8]
    s1 += ['ADD HL,' + r for r in R16]
    s1 += ['LD %s,%s' % (a, b) for a in R8 for b in R8 if not (a == b == '(HL)')]
    s1 += [a + r for a in ALU for r in R8]
    fam['plain1'] = [(t, 1) for t in s1]
    # ---- size 2, no numeric operand (ED, CB, index halves)
    s2 = ['NEG', 'RETI', 'RETN', 'LDIR', 'LDDR', 'LDI', 'LDD', 'CPIR', 'CPDR', 'CPI', 'CPD', 'INI', 'IND', 'INIR', 'INDR',
          'OUTI', 'OUTD', 'OTIR', 'OTDR', 'RLD', 'RRD', 'LD A,I', 'LD A,R', 'LD I,A', 'LD R,A', 'IN F,(C)']
    s2 += ['IN %s,(C)' % r for r in R8S] + ['OUT (C),%s' % r for r in R8S]
    s2 += ['ADC HL,' + r for r in R16] + ['SBC HL,' + r for r in R16]
    s2 += ['%s %s' % (o, r) for o in ROT for r in R8]
    for x in ('IX', 'IY'):
        s2 += ['PUSH ' + x, 'POP ' + x, 'INC ' + x, 'DEC ' + x, 'JP (%s)' % x, 'LD SP,' + x, 'EX (SP),' + x, 'ADD %s,%s' % (x, x)]
        s2 += ['ADD %s,%s' % (x, r) for r in ('BC', 'DE', 'SP')]
        for h in (x + 'h', x + 'l'):
            s2 += ['INC ' + h, 'DEC ' + h, 'LD A,' + h, 'LD %s,B' % h, 'LD E,' + h, 'LD %s,%sl' % (h, x)]
            s2 += [a + h for a in ALU]
    fam['plain2'] = [(t, 2) for t in s2]
    # ---- bit index, no other number
    fam['bit2'] = [('%s {b},%s' % (o, r), 2) for o in ('BIT', 'RES', 'SET') for r in R8]
    fam['im'] = [('IM {im}', 2)]
    fam['rst'] = [('RST {rst}', 1)]
    fam['outc0'] = [('OUT (C),0', 2)]
    # ---- 8-bit immediates
    n2 = ['LD %s,{n}' % r for r in R8] + [a + '{n}' for a in ALU] + ['IN A,({p})', 'OUT ({p}),A']
    fam['imm8'] = [(t, 2) for t in n2] + [('LD %s,{n}' % h, 3) for h in ('IXh', 'IXl', 'IYh', 'IYl')]
    # ---- 16-bit immediates / addresses
    nn = [('LD %s,{nn}' % r, 3) for r in R16] + [('LD HL,({nn})', 3), ('LD ({nn}),HL', 3), ('LD A,({nn})', 3), ('LD ({nn}),A', 3)]
    nn += [('LD %s,({nn})' % r, 4) for r in ('BC', 'DE', 'SP')] + [('LD ({nn}),%s' % r, 4) for r in ('BC', 'DE', 'SP')]
    nn += [('LD IX,{nn}', 4), ('LD IY,{nn}', 4), ('LD IX,({nn})', 4), ('LD IY,({nn})', 4), ('LD ({nn}),IX', 4), ('LD ({nn}),IY', 4)]
    fam['imm16'] = nn
    fam['jump'] = [('JP {nn}', 3), ('CALL {nn}', 3)] + [('JP %s,{nn}' % c, 3) for c in CC] + [('CALL %s,{nn}' % c, 3) for c in CC]
    fam['rel'] = [('JR {e}', 2), ('DJNZ {e}', 2)] + [('JR %s,{e}' % c, 2) for c in CC[:4]]
    # ---- indexed
    ix = []
    for x in ('IX', 'IY'):
        ix += [('LD %s,(%s{d})' % (r, x), 3) for r in R8S] + [('LD (%s{d}),%s' % (x, r), 3) for r in R8S]
        ix += [('%s(%s{d})' % (a, x), 3) for a in ALU] + [('INC (%s{d})' % x, 3), ('DEC (%s{d})' % x, 3)]
        ix += [('LD (%s{d}),{n}' % x, 4)]
        ix += [('%s (%s{d})' % (o, x), 4) for o in ROT] + [('%s (%s{d}),%s' % (o, x, r), 4) for o in ROT[:3] for r in ('B', 'A')]
        ix += [('%s {b},(%s{d})' % (o, x), 4) for o in ('BIT', 'RES', 'SET')]
        ix += [('%s {b},(%s{d}),%s' % (o, x, r), 4) for o in ('RES', 'SET') for r in ('C', 'L')]
    fam['index'] = ix
    return fam

FAMILIES = _families()
FAM_WEIGHTS = [('plain1', 14), ('plain2', 7), ('bit2', 4), ('im', 1), ('rst', 2), ('outc0', 1), ('imm8', 16), ('imm16', 16),
               ('jump', 12), ('rel', 8), ('index', 10), ('def', 14)]

BY_SIZE = {}
for _f, _items in FAMILIES.items():
    if _f == 'rel':
        continue           # relative jumps are never used as substitutes (range depends on where they land)
    for _t, _s in _items:
        BY_SIZE.setdefault(_s, []).append((_f, _t))

# alternative encodings (same length) of instructions that have more than one valid byte sequence
ALT_BYTES = {
    'NEG': [(0xED, 0x4C), (0xED, 0x54), (0xED, 0x7C)],
    'RETN': [(0xED, 0x55), (0xED, 0x65), (0xED, 0x75)],
    'IM 0': [(0xED, 0x4E), (0xED, 0x66)],
    'IM 1': [(0xED, 0x76)],
    'IM 2': [(0xED, 0x7E)],
    'NOP': [(0x40,), (0x7F,)],           # deliberately "wrong" bytes of the same length: @bytes wins in both tools
    'LD B,B': [(0x00,)],
}

WORDS = ['the', 'sprite', 'buffer', 'points', 'at', 'loop', 'counter', 'is', 'decremented', 'jump', 'if', 'zero', 'A=0', 'table',
         'of', 'bytes;', 'see', 'below.', 'Note:', 'code', 'a', 'I', 'and/or', "player's", 'score', '->', 'marker', 'bit', '7',
         'semi;colon', 'question?', 'UDG', 'attribute', 'INK', 'e.g.', 'x', 'y', '12', '"quoted"', 'colon:', '(paren)', 'a,b']

LABEL_STEMS = ['START', 'LOOP', 'DATA', 'TABLE', 'Draw', 'print_it', 'EXIT', 'WAIT', 'buf', 'MSG', 'Jump', 'ENTRY', 'sub', 'Z80X',
               'KEYS', 'done', 'NEXT', 'SKIP', 'TEXT', 'gfx', 'COPY']

def words(rng, lo=1, hi=7):
    return ' '.join(rng.choice(WORDS) for _ in range(rng.randint(lo, hi)))

class Op:
    """One operation text. refs: address-like literal values in it. bytes8: plain byte literals in it."""
    __slots__ = ('text', 'size', 'refs', 'family', 'rel')
    def __init__(self, text, size, refs, family, rel=False):
        self.text, self.size, self.refs, self.family, self.rel = text, size, list(refs), family, rel

class Line:
    """One instruction line of the skool file with the directives that stand in front of it."""
    def __init__(self, op):
        self.op = op
        self.addr = None          # skool address (None: no address field)
        self.ctl = ' '
        self.pre = []             # directive / comment lines in front (strings, or ('bytes', mode) placeholders)
        self.label = None         # explicit unconditional label name (never '*' or '')
        self.comment = None
        self.plain = True         # no sub/fix/org/bytes/data directive attached
        self.first = False
        self.subs = []            # (kind, rigid, [Op...]) for bookkeeping
        self.label_removed = False
        self.alt = False
        self.reserved = False     # may be swallowed by an overwrite / removal: carries no directive, is never put in a block

class Gen:
    def __init__(self, rng, profile=None):
        self.rng = rng
        self.labels = set()
        self.nlabel = 0
        self.addr_pool = []       # skool addresses of instructions (filled after layout)
        self.equ_values = []
        self.features = set()

    # ------------------------------------------------------------------ numbers
    def num(self, v, width=2):
        """Render value v >= 0 in a random base/style."""
        r = self.rng.random()
        if r < 0.55:
            s = str(v)
            if self.rng.random() < 0.06:
                s = '0' * self.rng.randint(1, 2) + s
            return s
        if r < 0.92:
            fmt = self.rng.choice(['$%X', '$%x', '$%0{}X'.format(width), '$%0{}x'.format(width)])
            return fmt % v
        if v < 65536 and r < 0.97:
            b = bin(v)[2:]
            if self.rng.random() < 0.5:
                b = b.rjust(8 if v < 256 else 16, '0')
            return '%' + b
        return str(v)

    def byte_value(self):
        r = self.rng.random()
        if r < 0.35 and self.addr_pool:
            a = self.rng.choice(self.addr_pool)
            if a < 256:
                return a                       # a byte that merely EQUALS an instruction address (must be left alone)
            return self.rng.choice([a & 255, a >> 8])
        if r < 0.5:
            return self.rng.choice([0, 1, 2, 7, 8, 10, 16, 32, 48, 57, 64, 100, 127, 128, 200, 254, 255])
        return self.rng.randrange(256)

    def byte_text(self):
        """(text, refs) for an 8-bit operand."""
        r = self.rng.random()
        if r < 0.08:
            c = self.rng.choice('aZ0 9;:,#+-*/%$(')
            return '"%s"' % c, []
        if r < 0.11:
            return '"\\%s"' % self.rng.choice('"\\'), []
        if r < 0.16 and self.addr_pool:
            a = self.rng.choice(self.addr_pool)
            if a >= 256:
                op = self.rng.choice(['/256', '%256']) if self.rng.random() < 0.8 else '/$100'
                self.features.add('byte-expr-of-address')
                return self.num(a, 4) + op, [a]
        if r < 0.22:
            x = self.rng.randrange(0, 100)
            y = self.rng.randrange(0, 100)
            self.features.add('byte-expr')
            return '%s%s%s' % (self.num(x), self.rng.choice('+*') if x * y < 256 else '+', self.num(y)), []
        if r < 0.25:
            self.features.add('char-expr')
            return '"%s"+%s' % (self.rng.choice('abcXYZ'), self.num(self.rng.choice([1, 32, 128]))), []
        return self.num(self.byte_value()), []

    def word_value(self):
        r = self.rng.random()
        if r < 0.55 and self.addr_pool:
            return self.rng.choice(self.addr_pool)
        if r < 0.65 and self.addr_pool:
            return (self.rng.choice(self.addr_pool) + self.rng.choice([1, 2, -1])) & 0xFFFF     # often inside an instruction
        if r < 0.75 and self.equ_values:
            return self.rng.choice(self.equ_values)
        if r < 0.85:
            return self.rng.choice([0, 1, 8, 56, 255, 256, 16384, 22528, 23296, 23552, 32768, 65535])
        return self.rng.randrange(65536)

    def word_text(self):
        """(text, refs) for a 16-bit operand: every literal in it is address-like."""
        r = self.rng.random()
        if r < 0.08 and self.addr_pool:
            a = self.rng.choice(self.addr_pool)
            k = self.rng.randrange(0, 12)
            self.features.add('word-expr')
            if self.rng.random() < 0.5 or a < k:
                if a + k > 65535:
                    k = 0
                return '%s+%s' % (self.num(a, 4), self.num(k)), [a, k]
            return '%s-%s' % (self.num(a, 4), self.num(k)), [a, k]
        v = self.word_value()
        return self.num(v, 4), [v]

    # ------------------------------------------------------------------ operations
    def fill(self, family, tmpl, size, near=None):
        """Fill the placeholders of a template. near: skool address for relative jumps."""
        refs = []
        text = tmpl
        rel = False
        if '{nn}' in text:
            t, r = self.word_text()
            refs += r
            text = text.replace('{nn}', t)
        if '{e}' in text:
            rel = True
            cands = [a for a in self.addr_pool if near is not None and -60 <= a - near <= 60]
            tgt = self.rng.choice(cands) if cands else (near if near is not None else 0)
            refs.append(tgt)
            text = text.replace('{e}', self.num(tgt, 4))
        if '{d}' in text:
            d = self.rng.choice([0, 1, 2, 5, 127, self.rng.randrange(128)])
            if self.rng.random() < 0.3:
                d = -self.rng.choice([1, 2, 128, self.rng.randrange(1, 129)])
            elif self.addr_pool and self.addr_pool[0] < 128 and self.rng.random() < 0.5:
                d = min(127, self.rng.choice(self.addr_pool))      # an offset that merely equals an instruction address
            t = ('-' + self.num(-d)) if d < 0 else ('+' + self.num(d))
            text = text.replace('{d}', t)
        if '{b}' in text:
            text = text.replace('{b}', str(self.rng.randrange(8)) if self.rng.random() < 0.9 else self.num(self.rng.randrange(8), 1))
        if '{n}' in text:
            t, r = self.byte_text()
            refs += r
            text = text.replace('{n}', t)
        if '{p}' in text:
            text = text.replace('{p}', self.num(self.rng.choice([254, 31, 255, 127, self.byte_value()])))
        if '{im}' in text:
            text = text.replace('{im}', str(self.rng.randrange(3)))
        if '{rst}' in text:
            v = 8 * self.rng.randrange(8)
            text = text.replace('{rst}', self.rng.choice([str(v), '$%02X' % v, '$%X' % v]))
        return Op(text, size, refs, family, rel)

    def def_shape(self, size=None):
        """Shape of a DEFB/DEFM/DEFW/DEFS statement: (directive, [item kinds], size)."""
        rng = self.rng
        if size is None:
            d = rng.choice(['DEFB', 'DEFB', 'DEFM', 'DEFW', 'DEFS'])
        else:
            d = rng.choice(['DEFB', 'DEFM', 'DEFS'] + (['DEFW'] if size % 2 == 0 else []))
        if d == 'DEFS':
            n = size or rng.choice([1, 2, 3, 5, 8, 16, 20])
            return d, [n], n
        if d == 'DEFW':
            n = (size // 2) if size else rng.randint(1, 4)
            return d, ['w'] * n, 2 * n
        items = []
        total = 0
        want = size or rng.randint(1, 9)
        while total < want:
            left = want - total
            if left >= 2 and rng.random() < (0.6 if d == 'DEFM' else 0.25):
                k = rng.randint(2, min(left, 8))
                items.append(('s', k))
                total += k
            else:
                items.append('b')
                total += 1
        return d, items, total

    def string(self, k):
        rng = self.rng
        out = ''
        for _ in range(k):
            r = rng.random()
            if r < 0.06:
                out += '\\"'
            elif r < 0.1:
                out += '\\\\'
            elif r < 0.35:
                out += rng.choice(' ,;:+-*/%$()#1234567890')      # digits after separators: base conversion must leave them
            else:
                out += rng.choice('abcdefghijklmnopqrstuvwxyzABCDEFGHIJKLMNOPQRSTUVWXYZ')
        return '"%s"' % out

    def fill_def(self, shape):
        d, items, size = shape
        refs = []
        if d == 'DEFS':
            t = self.num(items[0], 2)
            if self.rng.random() < 0.4:
                t += ',' + self.num(self.rng.randrange(256))
            return Op('%s %s' % (d, t), size, [], 'def')
        parts = []
        for it in items:
            if it == 'w':
                t, r = self.word_text()
                refs += r
            elif it == 'b':
                t, r = self.byte_text()
                refs += r
            else:
                t = self.string(it[1])
                self.features.add('string')
            parts.append(t)
        return Op('%s %s' % (d, ','.join(parts)), size, refs, 'def')

    def pick_shape(self):
        """(family, template-or-defshape, size) for an original instruction (phase 1: sizes only)."""
        fams, ws = zip(*FAM_WEIGHTS)
        f = self.rng.choices(fams, ws)[0]
        if f == 'def':
            sh = self.def_shape()
            return f, sh, sh[2]
        t, s = self.rng.choice(FAMILIES[f])
        return f, t, s

    def fill_shape(self, shape, near=None):
        f, t, s = shape
        if f == 'def':
            return self.fill_def(t)
        return self.fill(f, t, s, near)

    def op_of_size(self, size):
        """A substitute operation of exactly this size (never a relative jump)."""
        if size in BY_SIZE and self.rng.random() < 0.8:
            f, t = self.rng.choice(BY_SIZE[size])
            return self.fill(f, t, size)
        return self.fill_def(self.def_shape(size))

    def any_op(self, maxsize=4):
        while True:
            f, t, s = self.pick_shape()
            if f == 'rel' or s > max(maxsize, 1):
                continue
            return self.fill_shape((f, t, s))

    def new_label(self):
        while True:
            self.nlabel += 1
            stem = self.rng.choice(LABEL_STEMS)
            name = '%s%d' % (stem, self.nlabel) if self.rng.random() < 0.8 else '%s_%d' % (stem, self.nlabel)
            if name not in self.labels:
                self.labels.add(name)
                return name

def cond_for(rng):
    """An @if condition over the fields both tools define."""
    return rng.choice(['{asm}', '{asm}>1', '{asm}==3', '{asm}<3', '{fix}', '{fix}>1', '{fix}>=2', '{fix}==0', '{fix}<3',
                       '{asm}>1 && {fix}', '{asm}>1||{fix}>1', '{asm}+{fix}>3', '{fix}>{asm}', '{asm}>=2 && {fix}<2'])

def _case(rng, text, style):
    """Write an operation in the file's letter case (outside string literals)."""
    if style == 'upper':
        return text
    out = ''
    q = False
    i = 0
    while i < len(text):
        c = text[i]
        if c == '"':
            q = not q
        elif c == '\\' and q:
            out += text[i:i + 2]
            i += 2
            continue
        out += c if q else c.lower()
        i += 1
    return out

def generate(rng, profile):
    """profile: 'rigid' (only one-for-one size-preserving substitutions, arbitrary labels), 'fluid' (every shape of
    substitution, every referenced instruction labelled), 'mixed' (every shape, arbitrary labels)."""
    g = Gen(rng)
    style = 'upper' if rng.random() < 0.75 else 'lower'
    hexaddr = rng.random() < 0.25
    r = rng.random()
    if r < 0.2:
        org = rng.choice([0, 0, 1, 3, 16, 100])
    elif r < 0.6:
        org = rng.choice([16384, 23296, 24576, 32768, 40000, 49152, 60000])
    else:
        org = rng.randrange(256, 64000)
    nentries = rng.randint(1, 6)
    # ---- phase 1: shapes and layout
    entries = []
    addr = org
    allow_shift = profile != 'rigid' and rng.random() < 0.2
    org_shift = False
    for e in range(nentries):
        ctl = rng.choice('cccccbbwtsgu') if rng.random() < 0.97 else 'i'
        n = rng.randint(1, 9)
        lines = []
        gap = e > 0 and rng.random() < 0.25
        if gap:
            addr += rng.choice([1, 2, 5, 16, 100])
        ent = {'ctl': ctl, 'lines': lines, 'org': None}
        if e == 0 or gap:
            # skool2asm prints ORG only where @org stands; skool2bin runs on from the previous instruction otherwise
            if allow_shift and e == 0 and rng.random() < 0.5:
                # shifts beyond the reach of a relative jump too: the operand of a not yet relocated JR/DJNZ is then out of range at
                # the instruction's real address
                ent['org'] = ('value', addr + rng.choice([-1, 1, 16, 130, 256, 1000]) if addr > 0 else addr + rng.choice([7, 200]))
                if ent['org'][1] != addr:
                    org_shift = True
            else:
                ent['org'] = ('blank',) if rng.random() < 0.5 else ('value', addr)
        for i in range(n):
            if profile == 'rigid' and rng.random() < 0.04:
                t = rng.choice(sorted(ALT_BYTES))          # instructions with more than one valid encoding (for @bytes)
                shape = ('plain', t, 1 if t in ('NOP', 'LD B,B') else 2)
            elif ctl in 'bwtsgui' and rng.random() < 0.8:
                sh = g.def_shape()
                shape = ('def', sh, sh[2])
            else:
                shape = g.pick_shape()
            ln = Line(None)
            ln.shape = shape
            ln.addr = addr
            ln.first = i == 0
            ln.ctl = ctl if i == 0 else (' ' if rng.random() < 0.9 else '*')
            addr += shape[2]
            lines.append(ln)
        entries.append(ent)
    end = addr
    if org_shift and rng.random() < 0.5:
        style = 'lower'
    all_lines = [ln for ent in entries for ln in ent['lines']]
    g.addr_pool = [ln.addr for ln in all_lines]
    # EQUs: system-variable style addresses outside the file, sometimes an address inside it
    equs = []
    for _ in range(rng.choice([0, 0, 1, 2, 3])):
        v = rng.choice([23296, 23560, 23606, 23672, 254, 5, rng.randrange(65536), rng.choice(g.addr_pool)])
        name = g.new_label()
        equs.append((name, v))
        g.equ_values.append(v)
    # ---- phase 2: operands
    for ln in all_lines:
        ln.op = g.fill_shape(ln.shape, near=ln.addr)
    # ---- directives
    moving = set()
    blocks = []           # (entry index, position, kind, sign, [Line...], else-lines or None)
    has_data = False
    colon_hazard = False
    alt_bytes = []
    data_targets = []
    kinds_pool = list(KINDS)
    sub_rate = rng.choice([0.1, 0.25, 0.45])
    label_inserts = rng.random() < 0.05       # labels on '>'/'+' instructions: mechanism of finding C04-label-on-inserted-instruction
    keep_inserts = rng.random() < 0.5         # @keep on a line whose directives also insert/overwrite instructions (the line's own instruction alone is kept; repaired in fe78f4a)
    keep_insert_seen = False
    for ei, ent in enumerate(entries):
        lines = ent['lines']
        skip_until = -1
        for i, ln in enumerate(lines):
            if i <= skip_until:
                continue
            # labels, keep, nowarn
            if rng.random() < 0.4:
                r = rng.random()
                if r < 0.85:
                    ln.label = g.new_label()
                    ln.pre.append('@label=' + ln.label)
                elif r < 0.9:
                    ln.label = g.new_label()
                    ln.pre.append('@label=*' + ln.label)
                    g.features.add('label-entry-point')
                elif r < 0.96:
                    ln.pre.append('@label=*')
                    g.features.add('label-star')
                else:
                    ln.pre.append('@label=')
            if ln.op.refs and rng.random() < 0.15:
                if rng.random() < 0.5:
                    ln.pre.append('@keep')
                else:
                    ln.pre.append('@keep=' + ','.join(g.num(v, 4) for v in rng.sample(ln.op.refs, rng.randint(1, len(ln.op.refs)))))
                g.features.add('keep')
            if rng.random() < 0.08:
                ln.pre.append(rng.choice(['@nowarn', '@nowarn=%d' % (ln.op.refs[0] if ln.op.refs else 0), '@ignoreua']))
                g.features.add('nowarn')
            if rng.random() >= sub_rate or ln.op.rel and rng.random() < 0.7:
                # data / bytes directives on otherwise plain lines
                r = rng.random()
                if r < 0.06 and not ln.op.rel and (profile == 'rigid' or not ln.op.refs):
                    ln.pre.append(('bytes', 'same'))
                    g.features.add('bytes-same')
                elif profile == 'rigid' and ln.op.text in ALT_BYTES and (r < 0.09 or rng.random() < 0.6):
                    ln.pre.append('@bytes=' + ','.join(g.num(b) for b in rng.choice(ALT_BYTES[ln.op.text])))
                    ln.alt = True
                    alt_bytes.append([ln.addr, ln.op.size])
                    g.features.add('bytes-alt')
                elif r < 0.15:
                    has_data = True
                    d = rng.choice(['defb', 'defb', 'defs', 'defw'])
                    if d == 'defs':
                        vals = '%s,%s' % (g.num(rng.randint(1, 6)), g.num(rng.randrange(256)))
                    elif d == 'defw':
                        vals = ','.join(g.num(rng.randrange(65536), 4) for _ in range(rng.randint(1, 3)))
                    else:
                        vals = ','.join(rng.choice([g.num(rng.randrange(256)), g.string(rng.randint(1, 4))]) for _ in range(rng.randint(1, 4)))
                        if ':' in vals:
                            vals = vals.replace(':', '.')
                    if rng.random() < 0.6:
                        tgt = rng.choice([rng.randrange(org, end), end + rng.randrange(0, 24), max(0, org - rng.randrange(1, 20))])
                        ln.pre.append('@%s=%s:%s' % (d, g.num(tgt, 4), vals))
                    else:
                        ln.pre.append('@%s=%s' % (d, vals))
                    if rng.random() < 0.3:
                        # "may be followed by a semicolon and arbitrary text, which will be ignored"; a colon in that text is the
                        # mechanism of finding C04-data-directive-colon-in-comment, so it is written rarely and flagged
                        w = words(rng, 1, 3)
                        if ':' in w and rng.random() < 0.85:
                            w = w.replace(':', '')
                        if ':' in w:
                            colon_hazard = True
                        ln.pre[-1] += ' ; ' + (w.strip() or 'x')
                    g.features.add('data-' + d)
                if rng.random() < 0.3:
                    ln.comment = words(rng)
                continue
            # ---- substitution / fix directives on this line
            ln.plain = False
            nk = 1 if rng.random() < 0.75 else 2
            line_kinds = rng.sample(kinds_pool, nk)
            free_kinds = [k for k in kinds_pool if k not in line_kinds]      # one directive group per kind and line
            line_shapes = []
            for kind in line_kinds:
                rigid_only = profile == 'rigid'
                shapes = ['same', 'same', 'same-label', 'label-only', 'comment-only', 'nolabel']
                if not rigid_only:
                    shapes += ['resize', 'before', 'after', 'replace+after', 'before+after', 'overwrite', 'remove', 'multi-before',
                               'before+overwrite', 'before+overwrite'] + (['after-label'] if label_inserts else [])
                if any(x in ('overwrite', 'remove', 'before+overwrite') for x in line_shapes):
                    # an overwrite into a range that another directive of the same line removes is contradictory input
                    shapes = [x for x in shapes if x not in ('overwrite', 'remove', 'before+overwrite')]
                if ln.first and not label_inserts:
                    # an entry that begins with an inserted instruction gets its -c label on an instruction without address
                    shapes = [x for x in shapes if x not in ('before', 'multi-before', 'before+after', 'before+overwrite')]
                shape = rng.choice(shapes)
                line_shapes.append(shape)
                dirs = []
                ops = []
                rigid = True
                if shape == 'same':
                    o = g.op_of_size(ln.op.size)
                    ops.append(o)
                    dirs.append(o.text)
                elif shape == 'same-label':
                    o = g.op_of_size(ln.op.size)
                    ops.append(o)
                    dirs.append('%s:%s' % (g.new_label(), o.text))
                    g.features.add('sub-label')
                elif shape == 'label-only':
                    dirs.append('%s:' % g.new_label())
                    g.features.add('sub-label-only')
                elif shape == 'comment-only':
                    dirs.append('; ' + words(rng, 1, 4))
                elif shape == 'nolabel':
                    o = g.op_of_size(ln.op.size)
                    ops.append(o)
                    dirs.append(':' + o.text)
                    ln.label_removed = True
                    g.features.add('sub-label-removed')
                elif shape == 'resize':
                    sizes = [s for s in (1, 2, 3, 4) if s != ln.op.size]
                    o = g.op_of_size(rng.choice(sizes))
                    ops.append(o)
                    dirs.append(o.text)
                    rigid = False
                elif shape in ('before', 'multi-before'):
                    for _ in range(1 if shape == 'before' else rng.randint(2, 3)):
                        o = g.any_op()
                        ops.append(o)
                        lab = '%s:' % g.new_label() if label_inserts and rng.random() < 0.3 else ''
                        dirs.append('>' + lab + o.text)
                    rigid = False
                elif shape in ('after', 'after-label'):
                    o = g.any_op()
                    ops.append(o)
                    lab = '%s:' % g.new_label() if shape == 'after-label' else ''
                    dirs.append('+' + lab + o.text)
                    if rng.random() < 0.3:
                        o = g.any_op()
                        ops.append(o)
                        dirs.append(rng.choice(['', '+']) + o.text)
                    rigid = False
                elif shape == 'replace+after':
                    o = g.any_op()
                    ops.append(o)
                    dirs.append(rng.choice(['', '/']) + o.text)
                    for _ in range(rng.randint(1, 2)):
                        o = g.any_op()
                        ops.append(o)
                        dirs.append(o.text + (' ; ' + words(rng, 1, 3) if rng.random() < 0.3 else ''))
                    rigid = False
                elif shape == 'before+after':
                    o = g.any_op()
                    ops.append(o)
                    dirs.append('>' + o.text)
                    o = g.op_of_size(ln.op.size) if rng.random() < 0.5 else g.any_op()
                    ops.append(o)
                    dirs.append(o.text)
                    o = g.any_op()
                    ops.append(o)
                    dirs.append('+' + o.text)
                    rigid = False
                elif shape == 'overwrite':
                    # following lines that may be swallowed must be plain and stay plain
                    follow = []
                    j = i + 1
                    while j < len(lines) and len(follow) < 3:
                        follow.append(lines[j])
                        j += 1
                    room = ln.op.size + sum(f.op.size for f in follow)
                    if room >= 3 and keep_inserts and rng.random() < 0.5:
                        # the line's own instruction replaced by an overwriting operation with an address operand, under
                        # @keep: the number must stay as written in both tools even when its target has moved
                        o = g.fill(*rng.choice([(f, t, 3) for f, t in BY_SIZE[3] if '{nn}' in t]))
                        if not any(isinstance(p, str) and p.startswith('@keep') for p in ln.pre):
                            ln.pre.append('@keep' if rng.random() < 0.6 or not o.refs else '@keep=' + g.num(o.refs[0], 4))
                        g.features.add('keep+overwrite')
                    else:
                        o = g.any_op(min(4, room))
                    if o.size > room:
                        continue
                    ops.append(o)
                    dirs.append('|' + o.text)
                    used = o.size
                    if rng.random() < 0.4 and room - used >= 1:
                        o2 = g.any_op(min(4, room - used))
                        if o2.size <= room - used:
                            ops.append(o2)
                            dirs.append('|' + o2.text)
                            used += o2.size
                    skip_until = max(skip_until, i + len(follow))    # keep the possibly overwritten lines free of directives
                    for fl in follow:
                        fl.reserved = True
                    rigid = False
                    g.features.add('overwrite')
                elif shape == 'before+overwrite':
                    # '>' and '|' in one directive group: P bytes are prepended, then S bytes overwrite the skool range
                    # [A, A+S) - NOT shifted by P. The end of that range is placed exactly on, one byte short of and one
                    # byte beyond a boundary of the following instructions, and the lines up to the end of the window
                    # [A+S, A+S+P) (instructions that must survive) stay plain.
                    follow = []
                    j = i + 1
                    while j < len(lines) and len(follow) < 6:
                        follow.append(lines[j])
                        j += 1
                    if not follow:
                        continue
                    bounds = [ln.op.size]
                    for fl in follow:
                        bounds.append(bounds[-1] + fl.op.size)
                    room = bounds[-1]
                    k = rng.randrange(0, max(1, len(bounds) - 2))          # leave lines after the overwritten range
                    total = bounds[k] + rng.choice([0, -1, 1])
                    total = max(1, min(total, room))
                    pre = []
                    for _ in range(rng.choice([1, 1, 2])):
                        o = g.any_op()
                        pre.append(o)
                        ops.append(o)
                        dirs.append('>' + o.text)
                    parts = [total]
                    if total >= 2 and rng.random() < 0.4:
                        a = rng.randint(1, total - 1)
                        parts = [a, total - a]
                    for sz in parts:
                        o = g.op_of_size(sz)
                        ops.append(o)
                        dirs.append('|' + o.text)
                    skip_until = max(skip_until, i + len(follow))
                    for fl in follow:
                        fl.reserved = True
                    rigid = False
                    g.features.add('before+overwrite:' + ('exact' if total in bounds else ('short' if total + 1 in bounds else ('long' if total - 1 in bounds else 'inside'))))
                elif shape == 'remove':
                    # remove one or two plain lines that follow (never the first line of an entry)
                    if i + 1 >= len(lines):
                        continue
                    k = 1 if i + 2 >= len(lines) or rng.random() < 0.6 else 2
                    a0 = lines[i + 1].addr
                    a1 = lines[i + k].addr
                    if k == 1 and rng.random() < 0.6:
                        dirs.append('!' + g.num(a0, 4))
                    else:
                        dirs.append('!%s-%s' % (g.num(a0, 4), g.num(a1, 4)))
                    skip_until = max(skip_until, i + k)
                    for fl in lines[i + 1:i + k + 1]:
                        fl.reserved = True
                    rigid = False
                    g.features.add('remove')
                if not rigid:
                    moving.add(kind)
                ln.subs.append((kind, rigid, ops))
                g.features.add('shape:' + shape)
                for d in dirs:
                    if rng.random() < 0.2 and not d.startswith('!'):
                        # @if wrapper: the directive applies only where the condition holds; sometimes with an alternative
                        cond = cond_for(rng)
                        if rng.random() < 0.4 and shape == 'same' and free_kinds:
                            o = g.op_of_size(ln.op.size)
                            ops.append(o)
                            k2 = free_kinds.pop(rng.randrange(len(free_kinds)))
                            ln.subs.append((k2, True, [o]))
                            ln.pre.append('@if(%s)||%s=%s|%s=%s||' % (cond, kind, d, k2, o.text))
                        elif ',' not in d and '|' not in d and ')' not in d and '(' not in d and rng.random() < 0.5:
                            ln.pre.append('@if(%s)(%s=%s)' % (cond, kind, d))
                        elif '|' not in d:
                            ln.pre.append('@if(%s)||%s=%s||' % (cond, kind, d))
                        else:
                            ln.pre.append('@%s=%s' % (kind, d))
                            continue
                        g.features.add('if-wrapped')
                    else:
                        ln.pre.append('@%s=%s' % (kind, d))
            if rng.random() < 0.3:
                ln.comment = words(rng)
            if any(not rg for k, rg, o in ln.subs) and any(isinstance(p, str) and p.startswith('@keep') for p in ln.pre):
                # skool2bin applies @keep to the inserted instructions too, skool2asm only to the instruction in the line
                if keep_inserts:
                    keep_insert_seen = True
                else:
                    ln.pre = [p for p in ln.pre if not (isinstance(p, str) and p.startswith('@keep'))]
    # ---- block directives (whole lines inside @kind+begin/@kind-begin ... [@kind+else] ... @kind+end)
    if profile != 'rigid' and rng.random() < 0.3:
        cands = [(ei, i) for ei, ent in enumerate(entries) for i, ln in enumerate(ent['lines']) if i > 0 and not ln.reserved]
        for _ in range(rng.randint(1, 2)):
            if not cands:
                break
            ei, i = rng.choice(cands)
            kind = rng.choice(kinds_pool)
            form = rng.choice(['plus', 'minus-else', 'plus-else'])
            extra = []
            for _ in range(rng.randint(1, 3)):
                l2 = Line(g.any_op())
                l2.addr = None
                extra.append(l2)
            blocks.append((ei, i, kind, form, extra))
            moving.add(kind)
            g.features.add('block:' + form)
    if org_shift:
        moving.add('all')
    # ---- guard (c): which address-like literals point at an instruction without an unconditional label
    by_addr = {}
    for ln in all_lines:
        by_addr.setdefault(ln.addr, ln)
    all_ops = [ln.op for ln in all_lines]
    for ln in all_lines:
        for kind, rigid, ops in ln.subs:
            all_ops.extend(ops)
    for b in blocks:
        all_ops.extend(l2.op for l2 in b[4])
    referenced = set()
    for o in all_ops:
        for v in o.refs:
            if v in by_addr:
                referenced.add(v)
    if profile == 'fluid':
        for v in sorted(referenced):
            ln = by_addr[v]
            if ln.label is None:
                ln.label = g.new_label()
                ln.pre = [p for p in ln.pre if not (isinstance(p, str) and p.startswith('@label='))]
                ln.pre.insert(0, '@label=' + ln.label)
            if ln.label_removed:
                # drop the ':op' form (it removes the label): rewrite as a plain replacement
                ln.pre = [_drop_label_removal(p) for p in ln.pre]
                ln.label_removed = False
    unlabelled = sorted(v for v in referenced if by_addr[v].label is None or by_addr[v].label_removed)
    # the probe entry that render() appends at `end` is an instruction too
    probe_label = None
    if any(end in o.refs for o in all_ops):
        referenced.add(end)
        if profile == 'fluid' or rng.random() < 0.3:
            probe_label = g.new_label()
        else:
            unlabelled.append(end)
    f = SkoolFile()
    f.entries, f.equs, f.blocks = entries, equs, blocks
    f.style, f.hexaddr = style, hexaddr
    f.org, f.end = org, end
    f.moving = sorted(moving)
    f.unlabelled_refs = unlabelled
    f.referenced = sorted(referenced)
    f.alt_bytes = alt_bytes
    f.has_data = has_data
    f.colon_hazard = colon_hazard
    f.probe_label = probe_label
    f.keep_insert = keep_insert_seen
    f.data_targets = data_targets
    f.features = sorted(g.features)
    f.profile = profile
    f.rng = rng
    f.low_org = org < 256
    f.n_lines = len(all_lines)
    f.n_subs = sum(len(ln.subs) for ln in all_lines)
    return f

def _drop_label_removal(p):
    if isinstance(p, str):
        for k in KINDS:
            p = p.replace('%s=:' % k, '%s=' % k)
    return p

class SkoolFile:
    def peek_range(self):
        lo = max(0, self.org - 24)
        hi = min(65535, self.end + 48)
        return lo, hi

    def render(self, encode):
        """-> skool text. encode(op_text, address) -> tuple of bytes (the assembler's encoding), used for @bytes."""
        rng = self.rng
        out = ['@start']
        if rng.random() < 0.5:
            out.append('@assemble=2,2')
        for name, v in self.equs:
            out.append('@equ=%s=%s' % (name, v if rng.random() < 0.6 else '$%04X' % v))
        block_at = {}
        for b in self.blocks:
            block_at.setdefault((b[0], b[1]), b)
        for ei, ent in enumerate(self.entries):
            if ent['org'] is not None:
                if ent['org'][0] == 'blank':
                    out.append('@org')
                else:
                    out.append('@org=%s' % (ent['org'][1] if rng.random() < 0.7 else '$%04X' % ent['org'][1]))
            out.append('; %s at %s' % ({'c': 'Routine'}.get(ent['ctl'], 'Data'), 'entry %d' % ei))
            if rng.random() < 0.3:
                out.append(';')
                out.append('; ' + words(rng, 2, 10))
            for i, ln in enumerate(ent['lines']):
                b = block_at.get((ei, i))
                if b:
                    self._emit_block(out, b, ln, encode)
                    continue
                self._emit_line(out, ln, encode)
            out.append('')
        # the last entry: one data byte whose description shows what #PEEK reads over the whole image
        lo, hi = self.peek_range()
        out.append('; PEEK probe')
        out.append(';')
        out.append('; PKBEGIN:#FOR(%d,%d)(n,#PEEKn,/):PKEND' % (lo, hi))
        if self.probe_label:
            out.append('@label=' + self.probe_label)
        out.append('b%s DEFB 0' % self._addr(self.end))
        if rng.random() < 0.5:
            out.append('@end')
        return '\n'.join(out) + '\n'

    def _addr(self, a):
        if self.hexaddr:
            return ('$%04X' if self.style == 'upper' else '$%04x') % a
        return '%05d' % a

    def _emit_line(self, out, ln, encode):
        for p in ln.pre:
            if isinstance(p, tuple):
                data = encode(ln.op.text, ln.addr if ln.addr is not None else 0)
                if data:
                    out.append('@bytes=' + ','.join(self.rng.choice(['%d', '$%02X']) % b for b in data))
            else:
                out.append(p)
        text = _case(self.rng, ln.op.text, self.style)
        if ln.addr is None:
            s = '       ' + text
        else:
            s = '%s%s %s' % (ln.ctl, self._addr(ln.addr), text)
        if ln.comment:
            s += ' ; ' + ln.comment
        out.append(s)

    def _emit_block(self, out, b, ln, encode):
        ei, i, kind, form, extra = b
        if form == 'plus':
            # extra unaddressed instructions in front of the line when the kind is active
            out.append('@%s+begin' % kind)
            for l2 in extra:
                self._emit_line(out, l2, encode)
            out.append('@%s+end' % kind)
            self._emit_line(out, ln, encode)
        elif form == 'minus-else':
            out.append('@%s-begin' % kind)
            self._emit_line(out, ln, encode)
            out.append('@%s+else' % kind)
            for l2 in extra:
                self._emit_line(out, l2, encode)
            out.append('@%s+end' % kind)
        else:
            out.append('@%s+begin' % kind)
            for l2 in extra:
                self._emit_line(out, l2, encode)
            out.append('@%s-else' % kind)
            self._emit_line(out, ln, encode)
            out.append('@%s-end' % kind)

    @staticmethod
    def add_udgs(text, addrs):
        """HTML variant of a rendered file: #UDG macros (one image per address) in the probe entry's description."""
        lines = text.split('\n')
        i = max(n for n, l in enumerate(lines) if l.startswith('; PKBEGIN'))
        lines[i + 1:i + 1] = ['; #UDG%d,56,1(c04udg%d)' % (a, n) for n, a in enumerate(addrs)]
        return '\n'.join(lines)

    def meta(self):
        return {'moving': self.moving, 'unlabelled_refs': self.unlabelled_refs, 'alt_bytes': self.alt_bytes, 'has_data': self.has_data, 'colon_hazard': self.colon_hazard, 'keep_insert': self.keep_insert,
                'peek': list(self.peek_range()), 'org': self.org, 'end': self.end, 'profile': self.profile,
                'low_org': self.low_org, 'referenced': len(self.referenced)}
