"""G-PROG: Z80 programs and start states with boundary bias."""
from vk.gens import memgen

HOT = [0x0000, 0x0038, 0x0066, 0x3FFD, 0x3FFE, 0x3FFF, 0x4000, 0x4001, 0x5AFF, 0x7FFE, 0x7FFF, 0x8000, 0xBFFE, 0xBFFF, 0xC000, 0xC001, 0xFFFC, 0xFFFD, 0xFFFE, 0xFFFF]

def addr16(rng):
    r = rng.random()
    if r < 0.45:
        return rng.choice(HOT)
    if r < 0.6:
        return (rng.choice(HOT) + rng.randint(-3, 3)) & 0xFFFF
    return rng.randrange(65536)

def byte8(rng):
    return rng.choice([0, 1, 0x0F, 0x10, 0x7F, 0x80, 0xFE, 0xFF]) if rng.random() < 0.4 else rng.randrange(256)

def regs30(rng, pc=None, t=None, frame=69888, iff=None):
    r = [byte8(rng) for _ in range(30)]
    r[12] = addr16(rng)                  # SP
    r[13] = 0
    r[24] = addr16(rng) if pc is None else pc
    if t is None:
        k = rng.random()
        if k < 0.3:
            t = rng.choice([0, 1, 31, 32, 35, 36, 14334, 14335, 14336, 14361, frame - 30, frame - 4, frame - 1])
        elif k < 0.8:
            t = rng.randrange(frame)
        else:
            t = rng.randrange(frame) + frame * rng.choice([1, 2, 50, 240])
        if rng.random() < 0.04:
            t += rng.choice([1 << 32, 1 << 33, (1 << 32) - frame])      # the clock is a 64-bit counter
    r[25] = t
    r[26] = rng.randrange(2) if iff is None else iff
    r[27] = rng.choice([0, 1, 1, 2])
    r[28] = 0
    r[29] = addr16(rng)
    # pointer registers towards hot addresses
    for hi in (2, 4, 6, 8, 10):
        if rng.random() < 0.6:
            a = addr16(rng)
            r[hi], r[hi + 1] = a >> 8, a & 0xFF
    return r

def program_bytes(rng, n, org):
    style = rng.choice(['uniform', 'code', 'code', 'prefix', 'mixed', 'allops'])
    if style == 'allops':
        out = []
        while len(out) < n:
            k = rng.random()
            if k < 0.5:
                out.append(rng.randrange(256))
            elif k < 0.7:
                out += [0xED, rng.randrange(256)]
            elif k < 0.8:
                out += [0xCB, rng.randrange(256)]
            elif k < 0.93:
                out += [rng.choice([0xDD, 0xFD]), rng.randrange(256)]
            else:
                out += [rng.choice([0xDD, 0xFD]), 0xCB, rng.randrange(256), rng.randrange(256)]
        return out[:n]
    return memgen.gen_bytes(rng, n, style, org)

def image48(rng, org, code):
    """65536-byte image: random-ish background with the code placed at org (wrapping)."""
    bg = rng.random()
    if bg < 0.4:
        mem = [0] * 65536
    elif bg < 0.7:
        mem = [rng.randrange(256) for _ in range(65536)]
    else:
        v = rng.choice([0xFF, 0xC9, 0x76, 0x18, 0xDD])
        mem = [v] * 65536
    for i, b in enumerate(code):
        mem[(org + i) & 0xFFFF] = b
    # interrupt handlers: IM 1 at 0x38 and a full IM 2 table page
    mem[0x38:0x3B] = [0xFB, 0xC9, 0x00] if rng.random() < 0.7 else [rng.randrange(256) for _ in range(3)]
    return mem
