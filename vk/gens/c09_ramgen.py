"""RAM images for C09: random, long runs of every byte value, runs of 0xED of every length, ED directly before/after runs,
patterns placed across the 16K page boundaries."""

STYLES = ['random', 'runs', 'edrich', 'sparse', 'zeros', 'fill', 'mixed']
RUN_LENGTHS = [1, 2, 3, 4, 5, 6, 7, 253, 254, 255, 256, 257, 258, 259, 260, 509, 510, 511, 512, 513, 600, 765, 766]

def _run_len(rng):
    k = rng.random()
    if k < 0.35:
        return rng.choice(RUN_LENGTHS)
    if k < 0.75:
        return rng.randint(1, 12)
    return rng.randint(1, 700)

def _val(rng):
    return rng.choice([0x00, 0xED, 0xED, 0xFF, 0xEC, 0xEE, 0x01, rng.randrange(256), rng.randrange(256)])

def gen(rng, n, style=None):
    """n bytes."""
    if style is None:
        style = rng.choice(STYLES)
    if style == 'random':
        return rng.randbytes(n)
    if style == 'zeros':
        return bytes(n)
    if style == 'fill':
        return bytes((rng.choice([0xED, 0xFF, 0x00, rng.randrange(256)]),)) * n
    out = bytearray()
    if style == 'runs':
        while len(out) < n:
            out += bytes((_val(rng),)) * _run_len(rng)
    elif style == 'edrich':
        while len(out) < n:
            k = rng.randrange(9)
            if k == 0:      # lone ED followed by a run
                out.append(0xED)
                out += bytes((rng.choice([0, 1, 0xFF, rng.randrange(256)]),)) * rng.choice([1, 2, 3, 4, 5, 6, 7, 255, 256, rng.randint(1, 300)])
            elif k == 1:    # run followed by a lone ED
                out += bytes((rng.choice([0, 1, 0xFF, rng.randrange(256)]),)) * rng.choice([1, 4, 5, 6, 254, 255, 256, rng.randint(1, 300)])
                out.append(0xED)
            elif k == 2:    # run of ED of any length
                out += b'\xed' * rng.choice([1, 2, 3, 4, 5, 254, 255, 256, 257, 510, 511, rng.randint(1, 600)])
            elif k == 3:    # ED x ED y ...
                for _ in range(rng.randint(1, 6)):
                    out += bytes((0xED, rng.choice([0, 0xED, 1, rng.randrange(256)])))
            elif k == 4:    # literal noise
                out += rng.randbytes(rng.randint(1, 30))
            elif k == 5:    # run, then ED ED, then run of the same value
                v = rng.randrange(256)
                out += bytes((v,)) * rng.randint(1, 8) + b'\xed\xed' + bytes((v,)) * rng.randint(1, 8)
            elif k == 6:    # looks like an encoded stream
                out += bytes((0xED, 0xED, rng.randrange(256), rng.randrange(256)))
            elif k == 7:    # looks like the version 1 end marker
                out += b'\x00\xed\xed\x00'
            else:
                out += bytes((_val(rng),)) * _run_len(rng)
    elif style == 'sparse':
        out = bytearray(n)
        for _ in range(rng.randint(1, 40)):
            p = rng.randrange(n)
            s = gen(rng, rng.randint(1, 60), rng.choice(['random', 'edrich', 'runs']))
            out[p:p + len(s)] = s
    else:  # mixed
        while len(out) < n:
            out += gen(rng, min(n - len(out), rng.randint(1, 3000)), rng.choice(['random', 'runs', 'edrich', 'zeros']))
    return bytes(out[:n])

BOUNDARY_PATTERNS = [
    (b'\xed', b'\x00' * 7),               # lone ED ends a page, a run starts the next
    (b'\x00' * 7, b'\xed'),
    (b'\xed', b'\xed'),                   # ED ED split over two pages
    (b'\x05' * 130, b'\x05' * 130),       # run across the boundary
    (b'\xed' * 3, b'\xed' * 300),
    (b'\x00\xed\xed', b'\x00'),           # end-marker look-alike across the boundary
    (b'\x07' * 255, b'\x07'),
    (b'\x07' * 255 + b'\xed', b'\x07' * 5),
]

def decorate(rng, image, n_pages):
    """Overlays boundary patterns at page boundaries / start / end of a bytearray image made of n_pages 16K pages."""
    for _ in range(rng.randint(0, 3)):
        before, after = rng.choice(BOUNDARY_PATTERNS)
        b = 16384 * rng.randint(0, n_pages)
        lo, hi = max(0, b - len(before)), min(len(image), b + len(after))
        pat = (before + after)[len(before) - (b - lo):len(before) + (hi - b)]
        image[lo:hi] = pat
    return image

def gen48(rng, style=None):
    img = bytearray(gen(rng, 49152, style))
    if rng.random() < 0.5:
        decorate(rng, img, 3)
    return bytes(img)

def gen128(rng, style=None):
    banks = []
    for b in range(8):
        st = style if style is not None and rng.random() < 0.7 else None
        img = bytearray(gen(rng, 16384, st))
        if rng.random() < 0.3:
            decorate(rng, img, 1)
        banks.append(bytes(img))
    return banks
