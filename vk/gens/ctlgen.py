"""G-CTL: control files whose block and sub-block boundaries fall on statement boundaries.

Boundaries of code regions come from the real disassembler (so the precondition of C01/C03 holds by
construction); everything else is free choice. Returns ctl text plus the layout (for evidence and oracles).
"""
from vk.gens import textgen

BASES = 'bcdhmn'

class _Cfg:
    def __init__(self, handle_rst, wrap):
        from skoolkit.snaskool import Instruction
        self.asm_hex = False
        self.asm_lower = False
        self.defb_size = 8
        self.defm_size = 66
        self.defw_size = 1
        self.handle_rst = handle_rst
        self.imaker = Instruction
        self.opcodes = ''
        self.wrap = wrap

class Layout:
    def __init__(self):
        self.lines = []
        self.blocks = []       # (ctl, start, end)
        self.ignored = []      # (start, end)
        self.features = set()
        self.subblocks = 0

    def text(self):
        return '\n'.join(self.lines) + '\n'

def code_end(dis, start, want, limit):
    """End address (instruction boundary) of a code region starting at `start` of about `want` bytes, <= limit.
    Returns None if no boundary <= limit exists. With a wrapping disassembler and limit 65536 the last
    instruction may wrap past 65535 (the region then ends at 65536)."""
    a = start
    best = None
    while a < limit:
        inss = dis.disassemble(a, a + 1, 'n')
        n = sum(len(i.bytes) for i in inss)
        if n == 0:
            return best
        a2 = a + n
        if a2 > limit:
            if limit == 65536 and dis.wrap and a2 > 65536:
                return 65536
            break
        a = a2
        best = a
        if a - start >= want:
            break
    return best

def code_boundaries(dis, start, end):
    """List of instruction start addresses in [start, end) and the lengths, decoding from start."""
    out = []
    a = start
    while a < end:
        inss = dis.disassemble(a, a + 1, 'n')
        n = sum(len(i.bytes) for i in inss)
        if n == 0:
            break
        out.append((a, n, inss[0].operation))
        a += n
    return out

def _two_operand(op):
    return op.startswith('LD (I') and ',' in op and op.split(',')[1][:1].isdigit()

def _sublengths_data(rng, ctl, length, layout):
    """Sublength parameter list (strings) for a B/T/W/S sub-block of `length` bytes."""
    if ctl == 'S':
        # size[:value-base]
        k = rng.random()
        if k < 0.4:
            return []
        sz = rng.choice([d for d in (1, 2, 3, 4, 5, 8, 10, 25) if length % d == 0] or [length])
        spec = rng.choice(['', 'b', 'd', 'h']) + str(sz)
        if rng.random() < 0.5:
            spec += ':' + rng.choice('bcdhn')
            layout.features.add('S-value-base')
        layout.features.add('S-sublength')
        return [spec]
    unit = 2 if ctl == 'W' else 1
    if length % unit:
        return []
    specs = []
    rem = length
    nspec = rng.randint(1, 4)
    while rem > 0 and len(specs) < nspec:
        parts = []
        tot = 0
        for _ in range(rng.choice([1, 1, 1, 2, 3])):
            n = unit * rng.randint(1, 4)
            if tot + n > rem:
                break
            if ctl == 'T':
                base = rng.choice(['', '', 'n', 'b', 'd', 'h', 'c'])
            else:
                base = rng.choice(['', '', 'b', 'c', 'd', 'h', 'm', 'n'])
            parts.append(base + str(n))
            tot += n
        if not parts:
            break
        spec = ':'.join(parts)
        if len(parts) > 1:
            layout.features.add('colon-sublengths')
        mult = 1
        if rng.random() < 0.35:
            mult = rng.randint(2, 5)
            if tot * mult > rem:
                mult = max(1, rem // tot)
            if mult > 1:
                spec += '*%d' % mult
                layout.features.add('multiplier')
        specs.append(spec)
        rem -= tot * mult
    if any(c in s for s in specs for c in 'bcdhmn'):
        layout.features.add('base-prefix')
    return specs

def _sublengths_code(rng, bounds, layout):
    """Sublength list for a C sub-block from instruction (addr, len, op) list: groups of instructions with base prefixes."""
    specs = []
    i = 0
    while i < len(bounds):
        k = rng.randint(1, 4)
        grp = bounds[i:i + k]
        n = sum(b[1] for b in grp)
        two = any(_two_operand(b[2]) for b in grp)
        r = rng.random()
        if r < 0.35:
            base = ''
        elif two and r < 0.8:
            base = rng.choice('bdhmn') + rng.choice('bcdhn')
            layout.features.add('two-letter-base')
        else:
            base = rng.choice('bcdhmn')
        # base m only where a signed operand is meaningful: avoid on RST / IN A,(n) / OUT (n),A groups
        if 'm' in base and any(b[2].startswith(('RST', 'IN A,(', 'OUT (')) and not b[2].startswith('OUT (C)') for b in grp):
            base = base.replace('m', 'd')
        specs.append(base + str(n))
        i += k
    if any(s[0] in BASES for s in specs):
        layout.features.add('C-base-prefix')
    return specs

def generate(rng, snap, start, end, handle_rst=False, wrap=False, annotate=0, allow_ignored=True, sizes=None, allow_dots=False):
    """snap: mutable list of 65536 ints (regions for `s` blocks may be overwritten with a constant).
    annotate: 0 none, 1 instruction comments/titles, 2 everything (D/R/N/E, dot/colon lines, @ directives, > blocks)."""
    from skoolkit.disassembler import Disassembler
    dis = Disassembler(snap, _Cfg(handle_rst, wrap))
    lay = Layout()
    lay.allow_dots = allow_dots      # manual line breaks (dot directives) survive skool2ctl only with -k
    L = lay.lines
    addr = start
    sizes = sizes or [1, 2, 3, 5, 8, 13, 21, 40, 64, 100, 200]
    first = True
    while addr < end:
        ctl = rng.choice('bbccccggsttuuwwi' if allow_ignored and not first and lay.blocks[-1][0] != 'i' else 'bbccccggsttuuww')
        blen = min(end - addr, rng.choice(sizes))
        if ctl == 'w' and blen % 2:
            blen = blen - 1 if blen > 1 else blen
            if blen % 2:
                ctl = 'b'
        if ctl == 's':
            if rng.random() < 0.75 and not (addr > 0 and snap[addr - 1] in (0xDD, 0xFD)):
                v = rng.choice([0, 0, 255, rng.randrange(256)])
                for a in range(addr, addr + blen):
                    snap[a] = v
        bend = addr + blen
        if ctl == 'c':
            e = code_end(dis, addr, blen, end)
            if e is None:
                ctl = 'b'
            else:
                bend = e
        title = ''
        if annotate and rng.random() < 0.7:
            title = ' ' + textgen.sentence(rng, 1, 8)
        if annotate >= 2:
            textgen.entry_header_pre(rng, lay, addr, ctl)
        if lay.blocks and lay.blocks[-1][0] == 'i' and ctl != 'i':
            # skool2bin places instructions contiguously unless told otherwise (documented): after a gap left by an
            # ignored block the user must supply @org, so a well-formed control file has one here
            L.append('@ %d org' % addr)
            lay.features.add('org-after-ignored-block')
        elif not lay.blocks and rng.random() < 0.3:
            L.append('@ %d start' % addr)
            L.append('@ %d org' % addr)
        L.append('%s %s%s' % (ctl, _addr(rng, addr), title))
        lay.blocks.append((ctl, addr, bend))
        if ctl == 'i':
            lay.ignored.append((addr, bend))
            addr = bend
            first = False
            continue
        if annotate >= 2:
            textgen.entry_header_post(rng, lay, addr, ctl)
        # sub-blocks
        if rng.random() < 0.75:
            _subblocks(rng, snap, dis, lay, ctl, addr, bend, annotate)
        if annotate >= 2:
            textgen.entry_footer(rng, lay, addr, bend, ctl)
        lay.features.add('block-' + ctl)
        addr = bend
        first = False
    L.append('i %s' % _addr(rng, end))
    return lay

def _addr(rng, a):
    return str(a) if rng.random() < 0.85 else '$%04X' % a

def _subblocks(rng, snap, dis, lay, bctl, start, end, annotate):
    L = lay.lines
    a = start
    default = {'b': 'B', 'g': 'B', 'u': 'B', 't': 'T', 'w': 'W', 's': 'S', 'c': 'C'}[bctl]
    pend_m = None
    while a < end:
        rem = end - a
        sctl = rng.choice([default, default, 'B', 'C', 'S', 'T', 'W'])
        slen = min(rem, rng.choice([1, 2, 3, 4, 6, 8, 9, 12, 16, 24, 33]))
        bounds = None
        if sctl == 'C':
            e = code_end(dis, a, slen, end)
            if e is None:
                sctl = 'B'
            else:
                slen = e - a
                bounds = code_boundaries(dis, a, e)
        if sctl == 'W' and slen % 2:
            slen -= 1
            if slen == 0:
                sctl, slen = 'B', 1
        if sctl == 'S' and rng.random() < 0.6 and not (a > 0 and snap[a - 1] in (0xDD, 0xFD)):
            v = rng.choice([0, 255, 32, rng.randrange(256)])
            # only overwrite bytes that no earlier code decode depended on: the region lies ahead of all previously
            # fixed boundaries; the one look-ahead in the decoders (a DD/FD prefix is a 1-byte statement or not
            # depending on the NEXT byte) is excluded by the guard above
            for x in range(a, a + slen):
                snap[x] = v
        # loop over data sub-blocks
        if sctl in 'BW' and rng.random() < 0.12 and rem >= 8:
            unit = rng.choice([2, 4, 6]) if sctl == 'W' else rng.randint(2, 5)
            count = rng.randint(2, 4)
            if unit * count <= rem:
                p1 = unit // 2 if sctl == 'B' else unit
                if sctl == 'W':
                    L.append('W %d,%d' % (a, unit))
                else:
                    L.append('B %d,%d' % (a, p1))
                    if unit - p1:
                        L.append('T %d,%d' % (a + p1, unit - p1))
                L.append('L %d,%d,%d' % (a, unit, count))
                lay.features.add('L-loop')
                lay.subblocks += count
                a += unit * count
                continue
        if sctl == 'C':
            subl = _sublengths_code(rng, bounds, lay) if rng.random() < 0.5 else []
        else:
            subl = _sublengths_data(rng, sctl, slen, lay) if rng.random() < 0.6 else []
        # main length: explicit, or blank (terminated by the next sub-block / block end)
        explicit = rng.random() < 0.7
        mainbase = ''
        if sctl != 'C' and sctl != 'S' and rng.random() < 0.15:
            mainbase = rng.choice('bdhn' if sctl == 'T' else 'bdhmn')
            lay.features.add('main-length-base')
        elif sctl == 'C' and not subl and rng.random() < 0.3:
            mainbase = rng.choice('bcdhn')
            lay.features.add('main-length-base')
        parts = ['%s%s' % (mainbase, slen if explicit else '')]
        parts += subl
        spec = ','.join(parts).rstrip(',') if any(parts) else ''
        comment = ''
        if annotate and rng.random() < 0.6:
            comment = ' ' + textgen.instruction_comment(rng)
        if annotate and pend_m is None and rng.random() < 0.12 and end - a > slen:
            # M directive spanning this and following sub-blocks
            L.append('M %d%s %s' % (a, rng.choice(['', '', ',,1']), textgen.sentence(rng, 2, 10)))
            lay.features.add('M-directive')
            pend_m = a
        iua = False
        if annotate >= 2 and a > start and rng.random() < 0.1:
            textgen.mid_block_comment(rng, lay, a)
            pend_m = None
            if rng.random() < 0.5:
                # an instruction-level @ignoreua on the commented instruction right below a mid-block comment
                iua = True
                if not comment:
                    comment = ' ' + textgen.instruction_comment(rng)
        dname = sctl if (sctl != default or rng.random() < 0.5) else ' '
        line = '%s %s%s%s' % (dname, _addr(rng, a), (',' + spec) if spec else '', comment)
        L.append(line)
        if iua:
            L.append('@ %d ignoreua:i' % a)
            lay.features.add('ignoreua:i')
        lay.subblocks += 1
        lay.features.add('sub-' + sctl)
        if annotate >= 2:
            textgen.subblock_extras(rng, lay, a, a + slen, sctl)
        a += slen
        if pend_m is not None and rng.random() < 0.5:
            pend_m = None
