"""G-IMG: generator of image cases for C15 (tile arrays + rendering parameters). No skoolkit import.

An image spec is JSON-able:
  {'frames': [frame, ...], 'anim': 0|1, 'pngalpha': 0..255, 'level': 0..9, 'rgb': None | [[r,g,b] x 16]}
A frame spec:
  {'cols', 'rows', 'tiles': [[attr, 'datahex16', 'maskhex16' | None], ...] (row-major),
   'scale', 'mask', 'crop': [x, y, w|None, h|None], 'flip', 'rotate', 'tindex', 'alpha', 'xo', 'yo', 'delay'}
The crop rectangle refers to the array *after* flip/rotate.
"""

BYTE_POOL = (0x00, 0xFF, 0x0F, 0xF0, 0x80, 0x01, 0xAA, 0x55, 0x12, 0x48, 0x7E, 0x81, 0x3C, 0xC3, 0x18, 0xE7)

def tiles_of(frame):
    """Frame spec -> 2D list of (attr, [8 ints], [8 ints] | None)."""
    cols = frame['cols']
    flat = [(a, list(bytes.fromhex(d)), list(bytes.fromhex(m)) if m is not None else None) for a, d, m in frame['tiles']]
    return [flat[i:i + cols] for i in range(0, len(flat), cols)]

def _dims(rng, kind=None):
    k = kind or rng.choices(('tiny', 'medium', 'large', 'edge'), (40, 33, 15, 12))[0]
    if k == 'tiny':
        return rng.randint(1, 3), rng.randint(1, 3)
    if k == 'medium':
        return rng.randint(1, 8), rng.randint(1, 8)
    if k == 'large':
        return rng.randint(1, 32), rng.randint(1, 24)
    return rng.choice(((32, 24), (32, 1), (1, 24), (32, rng.randint(1, 24)), (rng.randint(1, 32), 24), (1, 1), (31, 23)))

def _scale(rng, cols, rows, cap):
    ok = [s for s in range(1, 9) if 64 * cols * rows * s * s <= cap] or [1]
    return rng.choice(ok)

def _attr_pool(rng):
    style = rng.choices(('one', 'two', 'few', 'many', 'shared', 'samecol'), (22, 22, 18, 22, 10, 6))[0]
    flash_bias = rng.random()
    def attr():
        a = rng.randrange(256)
        if flash_bias < 0.35:
            a &= 0x7F
        elif flash_bias > 0.8:
            a |= 0x80
        return a
    if style == 'one':
        return [attr()]
    if style == 'two':
        return [attr(), attr()]
    if style == 'few':
        return [attr() for _ in range(rng.randint(3, 4))]
    if style == 'many':
        return [attr() for _ in range(rng.randint(5, 24))]
    if style == 'samecol':
        c = rng.randrange(8)
        a = (attr() & 0xC0) | c | (c << 3)
        return [a]
    # 'shared': attributes built from a set of two or three colours, so that the palette stays small
    cols = rng.sample(range(8), rng.randint(2, 3))
    bright = rng.choice((0, 64))
    out = []
    for _ in range(rng.randint(2, 5)):
        a = rng.choice(cols) | (rng.choice(cols) << 3) | bright
        if flash_bias > 0.6 and rng.random() < 0.5:
            a |= 128
        out.append(a)
    return out

def _bytes8(rng, style):
    if style == 'random':
        return bytes(rng.randrange(256) for _ in range(8))
    if style == 'pool':
        return bytes(rng.choice(BYTE_POOL) for _ in range(8))
    if style == 'blank':
        return bytes(8)
    if style == 'solid':
        return bytes([255] * 8)
    # 'mixed'
    return _bytes8(rng, rng.choice(('random', 'pool', 'blank', 'solid')))

def _crop(rng, fw, fh, scale):
    """fw, fh: full (scaled) size of the array after flip/rotate."""
    k = rng.choices(('none', 'full', 'random', 'edge', 'over', 'far'), (44, 3, 30, 12, 4, 7))[0]
    if k == 'none':
        return [0, 0, None, None]
    if k == 'full':
        return rng.choice(([0, 0, fw, fh], [0, 0, fw, None], [0, 0, None, fh], [0, 0, 0, 0]))
    if k == 'random':
        x, y = rng.randrange(fw), rng.randrange(fh)
        w = rng.choice((None, rng.randint(1, fw - x), rng.randint(1, fw - x)))
        h = rng.choice((None, rng.randint(1, fh - y), rng.randint(1, fh - y)))
        return [x, y, w, h]
    if k == 'over':
        x, y = rng.randrange(fw), rng.randrange(fh)
        return [x, y, fw - x + rng.randint(0, 9), fh - y + rng.randint(0, 9)]
    if k == 'far':
        # origin in the far half, small rectangle
        x, y = rng.randrange(fw // 2, fw), rng.randrange(fh // 2, fh)
        return [x, y, rng.randint(1, max(1, min(fw - x, fw // 3 + 1))), rng.randint(1, max(1, min(fh - y, fh // 3 + 1)))]
    # 'edge': boundaries of tiles / scaled pixels, one-pixel strips, last pixel
    inc = 8 * scale
    def coord(limit):
        c = [0, limit - 1, max(0, limit - scale), max(0, limit - inc)]
        for base in (scale, inc):
            for d in (-1, 0, 1):
                v = base * rng.randint(0, max(0, limit // base)) + d
                if 0 <= v < limit:
                    c.append(v)
        return rng.choice(c)
    x, y = coord(fw), coord(fh)
    def size(limit, o):
        c = [1, limit - o, None]
        for base in (scale, inc):
            for d in (-1, 0, 1):
                v = base * rng.randint(1, max(1, (limit - o) // base)) + d
                if 1 <= v <= limit - o:
                    c.append(v)
        return rng.choice(c)
    return [x, y, size(fw, x), size(fh, y)]

def gen_frame(rng, cap, dims_kind=None, fit=None, first=True):
    cols, rows = _dims(rng, dims_kind)
    scale = _scale(rng, cols, rows, cap)
    pool = _attr_pool(rng)
    dstyle = rng.choices(('random', 'pool', 'mixed', 'blank', 'solid'), (45, 20, 25, 5, 5))[0]
    mask = rng.choices((0, 1, 2), (40, 30, 30))[0]
    mstyle = rng.choices(('none', 'all', 'partial'), (35 if mask else 70, 45 if mask else 20, 20 if mask else 10))[0]
    mbstyle = rng.choice(('random', 'pool', 'mixed', 'solid', 'data', 'inverse'))
    tiles = []
    for _ in range(cols * rows):
        d = _bytes8(rng, dstyle)
        m = None
        if mstyle == 'all' or (mstyle == 'partial' and rng.random() < 0.5):
            if mbstyle == 'data':
                m = d
            elif mbstyle == 'inverse':
                m = bytes(b ^ 255 for b in d)
            else:
                m = _bytes8(rng, mbstyle)
        tiles.append([rng.choice(pool), d.hex(), m.hex() if m is not None else None])
    flip = rng.choices((0, 1, 2, 3), (55, 15, 15, 15))[0]
    rotate = rng.choices((0, 1, 2, 3), (55, 15, 15, 15))[0]
    ocols, orows = (rows, cols) if rotate & 1 else (cols, rows)
    fw, fh = 8 * ocols * scale, 8 * orows * scale
    crop = _crop(rng, fw, fh, scale)
    if fit is not None:
        # a later frame of an animation must fit inside the first frame
        W0, H0 = fit
        x, y, w, h = crop
        aw = min(w or fw, fw - x)
        ah = min(h or fh, fh - y)
        if aw > W0:
            w = rng.randint(1, W0)
        if ah > H0:
            h = rng.randint(1, H0)
        crop = [x, y, w, h]
    tindex = rng.choices((0, rng.randrange(16)), (55, 45))[0]
    alpha = rng.choice((-1, -1, 0, 255, 128, rng.randrange(256)))
    return {'cols': cols, 'rows': rows, 'tiles': tiles, 'scale': scale, 'mask': mask, 'crop': crop, 'flip': flip,
            'rotate': rotate, 'tindex': tindex, 'alpha': alpha, 'xo': 0, 'yo': 0, 'delay': rng.choice((32, 1, 50, 255, 256, 1000))}

def frame_size(frame):
    """(width, height) of the rendered frame (crop clamped to the array)."""
    ocols, orows = (frame['rows'], frame['cols']) if frame['rotate'] & 1 else (frame['cols'], frame['rows'])
    fw, fh = 8 * ocols * frame['scale'], 8 * orows * frame['scale']
    x, y, w, h = frame['crop']
    return min(w or fw, fw - x), min(h or fh, fh - y)

def gen_image(rng, big=False, multi=None, custom_rgb=None):
    cap = 600000 if big else 120000
    if multi is None:
        multi = rng.random() < 0.12
    frames = [gen_frame(rng, cap)]
    if multi:
        W0, H0 = frame_size(frames[0])
        for _ in range(rng.randint(1, 3)):
            f = gen_frame(rng, min(cap, 60000), dims_kind=rng.choice(('tiny', 'medium')), fit=(W0, H0), first=False)
            w, h = frame_size(f)
            f['xo'] = rng.choice((0, W0 - w, rng.randint(0, W0 - w)))
            f['yo'] = rng.choice((0, H0 - h, rng.randint(0, H0 - h)))
            frames.append(f)
    rgb = None
    if custom_rgb if custom_rgb is not None else rng.random() < 0.1:
        rgb = [[rng.randrange(256) for _ in range(3)] for _ in range(16)]
    return {'frames': frames, 'anim': rng.choices((1, 0), (75, 25))[0], 'pngalpha': rng.choice((255, 255, 0, 128, rng.randrange(256))),
            'level': rng.choice((9, 9, 6, 1, 0, rng.randrange(10))), 'rgb': rgb}

def gen_directed(rng, n):
    """An image aimed at one of the 16 encoder-selection slots (colour count class x full size x masked)."""
    cls, full, masked = (n >> 2) & 3, n & 1, (n >> 1) & 1
    img = gen_image(rng, multi=False, custom_rgb=False)
    f = img['frames'][0]
    ntiles = len(f['tiles'])
    cols3 = rng.sample(range(8), 4)
    bright = rng.choice((0, 64))
    if cls == 0:
        c = rng.randrange(8)
        pool = [c | (c << 3) | bright]
    elif cls == 1:
        if masked and rng.random() < 0.5:
            c = rng.randrange(8)
            pool = [c | (c << 3) | bright]
        else:
            pool = [cols3[0] | (cols3[1] << 3) | bright]
    elif cls == 2:
        k = 2 if masked else rng.choice((3, 4))
        pool = [cols3[i] | (cols3[(i + 1) % (k if k > 2 else 3)] << 3) | bright for i in range(2)]
        if not masked and k == 4:
            pool.append(cols3[2] | (cols3[3] << 3) | bright)
    else:
        pool = [rng.randrange(128) for _ in range(12)]
    if rng.random() < 0.3 and cls:
        pool = [a | 128 if rng.random() < 0.5 else a for a in pool]
    f['mask'] = rng.choice((1, 2)) if masked else rng.choice((0, 0, 1, 2))
    tiles = []
    for i in range(ntiles):
        d = _bytes8(rng, 'random')
        m = None
        if masked:
            if cls == 0 or (cls == 1 and len({pool[0] & 7, (pool[0] >> 3) & 7}) == 2):
                m = bytes(8) if f['mask'] == 2 or cls == 0 else bytes([255] * 8)
                if cls == 0 and f['mask'] == 1:
                    m = bytes(8)
            else:
                m = _bytes8(rng, 'random')
        tiles.append([pool[i % len(pool)] if i < len(pool) else rng.choice(pool), d.hex(), m.hex() if m is not None else None])
    f['tiles'] = tiles
    if full:
        f['crop'] = [0, 0, None, None]
    elif f['crop'] == [0, 0, None, None] or crop_is_full(f):
        ocols, orows = (f['rows'], f['cols']) if f['rotate'] & 1 else (f['cols'], f['rows'])
        fw, fh = 8 * ocols * f['scale'], 8 * orows * f['scale']
        f['crop'] = [rng.randrange(0, 4), rng.randrange(0, 4), fw - rng.randint(4, 6), fh - rng.randint(4, 6)]
    return img

def crop_is_full(f):
    ocols, orows = (f['rows'], f['cols']) if f['rotate'] & 1 else (f['cols'], f['rows'])
    return frame_size(f) == (8 * ocols * f['scale'], 8 * orows * f['scale'])

def summary(img):
    f = img['frames'][0]
    return '%d frame(s); frame0 %dx%d tiles scale %d mask %d crop %s flip %d rotate %d tindex %d alpha %d anim %d' % (
        len(img['frames']), f['cols'], f['rows'], f['scale'], f['mask'], f['crop'], f['flip'], f['rotate'], f['tindex'], f['alpha'], img['anim'])
