"""Construction and single-stepping of the four simulator implementations (after boot.init())."""
import random

KINDS = ('py', 'c', 'pycmio', 'ccmio')
PLAIN = ('py', 'c')
CMIO = ('pycmio', 'ccmio')

A, F, B, C, D, E, H, L, IXh, IXl, IYh, IYl, SP, SP2, I, R = range(16)
xA, xF, xB, xC, xD, xE, xH, xL, PC, T, IFF, IM, HALT, MEMPTR = range(16, 30)
REGNAMES = ['A', 'F', 'B', 'C', 'D', 'E', 'H', 'L', 'IXh', 'IXl', 'IYh', 'IYl', 'SP', 'SP2', 'I', 'R',
            "A'", "F'", "B'", "C'", "D'", "E'", "H'", "L'", 'PC', 'T', 'IFF', 'IM', 'HALT', 'MEMPTR']

def sim_class(kind):
    import skoolkit
    if kind == 'py':
        from skoolkit.simulator import Simulator
        return Simulator
    if kind == 'pycmio':
        from skoolkit.cmiosimulator import CMIOSimulator
        return CMIOSimulator
    if kind == 'c':
        if skoolkit.CSimulator is None:
            raise RuntimeError('CSimulator not importable')
        return skoolkit.CSimulator
    if kind == 'ccmio':
        if skoolkit.CCMIOSimulator is None:
            raise RuntimeError('CCMIOSimulator not importable')
        return skoolkit.CCMIOSimulator
    raise ValueError(kind)

class LogMem(list):
    """list memory that records every store (address, value) made through item assignment."""
    __slots__ = ('log',)
    def __setitem__(self, i, v):
        self.log.append((i, v))
        list.__setitem__(self, i, v)

class PortLog:
    """Tracer recording port events; input values come from a deterministic function of the event index."""
    def __init__(self, seed=0):
        self.seed = seed
        self.events = []
        self.n = 0

    def reset(self, seed=None):
        if seed is not None:
            self.seed = seed
        self.events = []
        self.n = 0

    def read_port(self, registers, port):
        v = ((self.seed * 2654435761 + self.n * 40503 + port * 7) >> 3) & 0xFF
        self.n += 1
        self.events.append(('in', port, v, registers[25]))
        return v

    def write_port(self, registers, port, value, offset=0):
        self.n += 1
        self.events.append(('out', port, value, registers[25], offset))

def make48(kind, mem=None, registers=None, state=None, config=None, logmem=False):
    """mem: list of 65536 ints (copied)."""
    from skoolkit import simutils
    cls = sim_class(kind)
    m = list(mem) if mem is not None else [0] * 65536
    if logmem and kind in ('py', 'pycmio'):
        lm = LogMem(m)
        lm.log = []
        m = lm
    return simutils.from_memory(cls, m, registers, state, config)

def regs_list(sim):
    return list(sim.registers)

def set_regs(sim, values):
    r = sim.registers
    for i, v in enumerate(values):
        r[i] = v

def fmt_regs(vals):
    return ' '.join('%s=%d' % (REGNAMES[i], v) for i, v in enumerate(vals))

def diff_regs(a, b, ignore=()):
    return [(REGNAMES[i], a[i], b[i]) for i in range(30) if i not in ignore and a[i] != b[i]]

# ------------------------------------------------------------------ machines for lock-step work

def _tracer_class():
    from skoolkit.pagingtracer import PagingTracer

    class LockTracer(PagingTracer):
        """Paging tracer (the real 0x7FFD/AY/border logic of skoolkit) + event log + deterministic inputs."""
        def __init__(self, simulator, out7ffd=0, seed=0):
            self.simulator = simulator
            self.out7ffd = out7ffd
            self.outfffd = 0
            self.ay = [0] * 16
            self.border = 7
            self.outfe = 0
            self.events = []
            self.n = 0
            self.seed = seed

        def reset(self, out7ffd=0, seed=0):
            self.__init__(self.simulator, out7ffd, seed)

        def read_port(self, registers, port):
            v = ((self.seed * 2654435761 + self.n * 40503 + port * 7) >> 3) & 0xFF
            self.n += 1
            self.events.append(('in', port, v, registers[25]))
            return v

        def write_port(self, registers, port, value, offset=0):
            self.n += 1
            self.events.append(('out', port, value, registers[25], offset))
            PagingTracer.write_port(self, registers, port, value, offset)
    return LockTracer

_LT = None
def LockTracer(*a, **k):
    global _LT
    if _LT is None:
        _LT = _tracer_class()
    return _LT(*a, **k)

class Machine:
    """One simulator with its own memory and tracer. image: list of 65536 ints (48K) or list of 8 lists of 16384 (128K)."""
    def __init__(self, kind, image, regs, o7ffd=0, tracer=True, seed=0, logmem=False):
        from skoolkit import simutils
        from skoolkit.pagingtracer import Memory
        self.kind = kind
        self.is128 = len(image) == 8
        cls = sim_class(kind)
        if self.is128:
            banks = [list(b) for b in image]
            mem = Memory(banks, o7ffd)
        else:
            mem = list(image)
            if logmem and kind in ('py', 'pycmio'):
                lm = LogMem(mem)
                lm.log = []
                mem = lm
        self.sim = simutils.from_memory(cls, mem)
        set_regs(self.sim, regs)
        self.tracer = None
        if tracer:
            self.tracer = LockTracer(self.sim, o7ffd, seed)
            self.sim.set_tracer(self.tracer)

    @property
    def regs(self):
        return list(self.sim.registers)

    def step(self):
        self.sim.run()

    def flat(self):
        """All of RAM as bytes (48K: 0x4000-0xFFFF; 128K: banks 0-7) + ROM area as seen now."""
        m = self.sim.memory
        if self.is128:
            return b''.join(bytes(b) for b in m.banks), bytes(m.roms[0]) + bytes(m.roms[1])
        return bytes(m[0x4000:]), bytes(m[:0x4000])

    def mapping(self):
        """Which physical things are visible (128K): read one byte per 16K slot is not enough; use identities where possible."""
        m = self.sim.memory
        if not self.is128:
            return None
        return getattr(m, 'o7ffd', None)
