"""Construction and single-stepping of the four simulator implementations (after boot.init())."""
import random

KINDS = ('py', 'c', 'pycmio', 'ccmio')
PLAIN = ('py', 'c')
CMIO = ('pycmio', 'ccmio')

A, F, B, C, D, E, H, L, IXh, IXl, IYh, IYl, SP, SP2, I, R = range(16)
xA, xF, xB, xC, xD, xE, xH, xL, PC, T, IFF, IM, HALT, MEMPTR = range(16, 30)
REGNAMES = ['A', 'F', 'B', 'C', 'D', 'E', 'H', 'L', 'IXh', 'IXl', 'IYh', 'IYl', 'SP', 'SP2', 'I', 'R',
            "A'", "F'", "B'", "C'", "D'", "E'", "H'", "L'", 'PC', 'T', 'IFF', 'IM', 'HALT', 'MEMPTR']

def sim_class(kind):
    import skoolkit
    if kind == 'py':
        from skoolkit.simulator import Simulator
        return Simulator
    if kind == 'pycmio':
        from skoolkit.cmiosimulator import CMIOSimulator
        return CMIOSimulator
    if kind == 'c':
        if skoolkit.CSimulator is None:
            raise RuntimeError('CSimulator not importable')
        return skoolkit.CSimulator
    if kind == 'ccmio':
        if skoolkit.CCMIOSimulator is None:
            raise RuntimeError('CCMIOSimulator not importable')
        return skoolkit.CCMIOSimulator
    raise ValueError(kind)

class LogMem(list):
    """list memory that records every store (address, value) made through item assignment."""
    __slots__ = ('log',)
    def __setitem__(self, i, v):
        self.log.append((i, v))
        list.__setitem__(self, i, v)

class PortLog:
    """Tracer recording port events; input values come from a deterministic function of the event index."""
    def __init__(self, seed=0):
        self.seed = seed
        self.events = []
        self.n = 0

    def reset(self, seed=None):
        if seed is not None:
            self.seed = seed
        self.events = []
        self.n = 0

    def read_port(self, registers, port):
        v = ((self.seed * 2654435761 + self.n * 40503 + port * 7) >> 3) & 0xFF
        self.n += 1
        self.events.append(('in', port, v, registers[25]))
        return v

    def write_port(self, registers, port, value, offset=0):
        self.n += 1
        self.events.append(('out', port, value, registers[25], offset))

def make48(kind, mem=None, registers=None, state=None, config=None, logmem=False):
    """mem: list of 65536 ints (copied)."""
    from skoolkit import simutils
    cls = sim_class(kind)
    m = list(mem) if mem is not None else [0] * 65536
    if logmem and kind in ('py', 'pycmio'):
        lm = LogMem(m)
        lm.log = []
        m = lm
    return simutils.from_memory(cls, m, registers, state, config)

def regs_list(sim):
    return list(sim.registers)

def set_regs(sim, values):
    r = sim.registers
    for i, v in enumerate(values):
        r[i] = v

def fmt_regs(vals):
    return ' '.join('%s=%d' % (REGNAMES[i], v) for i, v in enumerate(vals))

def diff_regs(a, b, ignore=()):
    return [(REGNAMES[i], a[i], b[i]) for i in range(30) if i not in ignore and a[i] != b[i]]
