"""Worker bootstrap: make `import skoolkit` resolve to /repo's working tree and the two C
extension modules to the freshly built files (never the stale .so files lying in /repo/skoolkit).

Call boot.init(flavour) before importing skoolkit.
"""
import importlib.abc
import importlib.machinery
import importlib.util
import os
import shutil
import sys
import atexit

from vk import paths, build

_state = {'dir': None, 'error': None, 'flavour': None}

class _CExtFinder(importlib.abc.MetaPathFinder):
    NAMES = ('skoolkit.csimulator', 'skoolkit.ccmiosimulator')

    def find_spec(self, fullname, path, target=None):
        if fullname in self.NAMES:
            d = _state['dir']
            if d is None:
                # Build failed or C disabled: make the import fail (tools fall back to Python)
                raise ImportError('C extension not available (verif harness)')
            fname = os.path.join(d, fullname.split('.')[1] + build.SUFFIX)
            loader = importlib.machinery.ExtensionFileLoader(fullname, fname)
            return importlib.util.spec_from_file_location(fullname, fname, loader=loader)
        return None

def init(flavour='plain', use_c=True, scratch=True):
    if 'skoolkit' in sys.modules:
        raise RuntimeError('boot.init() must run before skoolkit is imported')
    if paths.REPO not in sys.path:
        sys.path.insert(0, paths.REPO)
    if os.path.isdir(paths.DEPS) and paths.DEPS not in sys.path:
        sys.path.append(paths.DEPS)
    os.environ[paths.GUARD] = '1'
    if use_c:
        d, err = build.build(flavour)
        _state.update(dir=d, error=err, flavour=flavour)
    sys.meta_path.insert(0, _CExtFinder())
    if scratch:
        sd = os.path.join(paths.SCRATCH, str(os.getpid()))
        os.makedirs(sd, exist_ok=True)
        os.environ['HOME'] = sd
        os.chdir(sd)
        atexit.register(shutil.rmtree, sd, True)
        _state['scratch'] = sd
    return _state

def c_build_error():
    return _state['error']

def scratch_dir():
    return _state.get('scratch')
