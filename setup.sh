#!/bin/bash
# Offline setup: third-party contract libraries into .deps, both C extension pairs into .build
cd "$(dirname "$0")"
set -e
mkdir -p .deps .build .scratch evidence replays
/venv/bin/pip install -q --no-index --find-links /opt/veriftools/wheels --target .deps icontract deal >/dev/null 2>&1 || echo "WARN: icontract/deal not installed (contracts fall back to hand-written wrappers)"
PYTHONDONTWRITEBYTECODE=1 /venv/bin/python -m vk.build plain asan
